(* ParsedWf.v — every value the master parser returns is well-formed in the sense of
   MasterText.wf_master, up to the two float conditions: the text theorem applies to every
   parse result whose floats survive the std conversions. *)
From hls Require Import Base Float Lex Kinds Types Tags Line Keys Media Master.
From hls.Generated Require Import Tables.
From hls.Proofs Require Import EqFacts Build Parse C16 C12 C14 Lexical Values TextLines AttrText TagText
  TagTextMedia TagTextVariant MasterText.
From Coq Require Import Lia ZifyN ZifyNat ZifyBool.
Open Scope N_scope.

(* ---------- value facts ---------- *)
Lemma strip_bad_clean : forall s, clean_quoted (strip_bad s) = true.
Proof.
  intros s. unfold clean_quoted, strip_bad. rewrite forallb_forall. intros c Hc. apply filter_In in Hc. tauto.
Qed.
Lemma unquote_clean : forall s, clean_quoted (unquote s) = true.
Proof.
  intros s. unfold unquote. destruct s as [|c r]; [reflexivity|].
  destruct (N.eqb_spec c 34) as [->|Hne].
  - destruct (rev r) as [|d ri] eqn:E; [apply strip_bad_clean|].
    destruct (N.eqb_spec d 34) as [->|Hd].
    + destruct (any_char is_bad_quoted (rev ri)) eqn:Ea; [apply strip_bad_clean|].
      unfold clean_quoted. unfold any_char in Ea. rewrite forallb_forall. intros x Hx.
      destruct (is_bad_quoted x) eqn:Eb; [|reflexivity].
      assert (existsb is_bad_quoted (rev ri) = true) by (apply existsb_exists; eauto). congruence.
    + destruct d as [|p]; try apply strip_bad_clean.
      do 6 (destruct p as [p|p|]; try apply strip_bad_clean). congruence.
  - destruct c as [|p]; try apply strip_bad_clean.
    do 6 (destruct p as [p|p|]; try apply strip_bad_clean). congruence.
Qed.

Lemma enum_find_bound : forall tbl s i j, enum_find tbl s i = Some j -> i <= j < i + N.of_nat (List.length tbl).
Proof.
  induction tbl as [|x r IH]; intros s i j H; [discriminate|]. cbn [enum_find] in H.
  destruct (str_eqb x s).
  - inversion H; subst. cbn [List.length]. lia.
  - apply IH in H. cbn [List.length]. lia.
Qed.
Lemma enum_parse_bound : forall tbl s i, enum_parse tbl s = Ok i -> i < N.of_nat (List.length tbl).
Proof.
  intros tbl s i H. unfold enum_parse in H. destruct (enum_find tbl s 0) as [j|] eqn:E; [|discriminate].
  inversion H; subst. apply enum_find_bound in E. lia.
Qed.
Lemma parse_uint_bound : forall w s n, parse_uint w s = Some n -> n < 2 ^ w.
Proof.
  intros w s n H. unfold parse_uint in H. destruct (strip_plus s); [discriminate|].
  destruct (digits_val _ 0) as [v|]; [|discriminate]. destruct (v <? 2 ^ w) eqn:E; [|discriminate].
  inversion H; subst. apply N.ltb_lt, E.
Qed.
Lemma parse_u64_bound : forall s n, parse_u64 s = Ok n -> n <? two64 = true.
Proof.
  intros s n H. unfold parse_u64 in H. destruct (parse_uint 64 s) as [v|] eqn:E; [|discriminate].
  inversion H; subst. apply parse_uint_bound in E. apply N.ltb_lt. exact E.
Qed.
Lemma parse_channels_bound : forall s c, parse_channels s = Ok c -> ch_number c <? two64 = true.
Proof.
  intros s c H. unfold parse_channels in H. destruct (split_once 47 s) as [[a b]|].
  - apply bind_ok in H. destruct H as [n [Hn H]]. destruct (str_eqb b s_JOC); [|discriminate].
    inversion H; subst. apply (parse_u64_bound _ _ Hn).
  - apply bind_ok in H. destruct H as [n [Hn H]]. inversion H; subst. apply (parse_u64_bound _ _ Hn).
Qed.
Lemma parse_resolution_bound : forall s r, parse_resolution s = Ok r -> (fst r <? two64) && (snd r <? two64) = true.
Proof.
  intros s r H. unfold parse_resolution in H. destruct (splitn2 120 s) as [w h].
  apply bind_ok in H. destruct H as [w' [Hw H]]. destruct h as [h|]; [|discriminate].
  apply bind_ok in H. destruct H as [h' [Hh H]]. inversion H; subst. cbn [fst snd].
  unfold parse_usize in *. rewrite (parse_u64_bound _ _ Hw), (parse_u64_bound _ _ Hh). reflexivity.
Qed.

(* pieces of a split *)
Lemma split_on_pieces : forall c s p, In p (split_on c s) -> no_char c p = true /\ (forall x, In x p -> In x s).
Proof.
  intros c. induction s as [|x r IH]; intros p H.
  - cbn [split_on In] in H. destruct H as [<-|[]]. split; [reflexivity | intros ? []].
  - cbn [split_on] in H. destruct (N.eqb_spec x c) as [->|Hne].
    + destruct H as [<-|H]; [split; [reflexivity | intros ? []]|].
      destruct (IH p H) as [A B]. split; [exact A | intros y Hy; right; apply B, Hy].
    + destruct (split_on c r) as [|h t] eqn:E.
      * destruct H as [<-|[]]. split; [simpl; destruct (N.eqb_spec x c); [congruence | reflexivity] | intros y [<-|[]]; left; reflexivity].
      * destruct H as [<-|H].
        -- destruct (IH h (or_introl eq_refl)) as [A B]. split.
           ++ simpl. destruct (N.eqb_spec x c); [congruence | exact A].
           ++ intros y [<-|Hy]; [left; reflexivity | right; apply B, Hy].
        -- destruct (IH p (or_intror H)) as [A B]. split; [exact A | intros y Hy; right; apply B, Hy].
Qed.
Lemma codecs_wf : forall s, wf_codecs (parse_codecs (unquote s)) = true.
Proof.
  intros s. unfold wf_codecs, parse_codecs. apply andb_true_iff. split.
  - pose proof (split_on_nonempty 44 (unquote s)). destruct (split_on 44 (unquote s)); [congruence | reflexivity].
  - rewrite forallb_forall. intros p Hp. destruct (split_on_pieces _ _ _ Hp) as [A B].
    rewrite A, andb_true_r. pose proof (unquote_clean s) as Hc. unfold clean_quoted in *.
    rewrite forallb_forall in *. intros x Hx. apply Hc, B, Hx.
Qed.

(* ---------- EXT-X-MEDIA ---------- *)
Definition xm_acc_ok (a : xm_acc) : Prop :=
  match ma_type a with Some t => t < 4 | None => True end
  /\ oclean (ma_uri a) = true /\ oclean (ma_group a) = true /\ oclean (ma_lang a) = true
  /\ oclean (ma_assoc a) = true /\ oclean (ma_name a) = true
  /\ match ma_instream a with Some i => i <? 67 | None => true end = true
  /\ oclean (ma_chars a) = true
  /\ match ma_channels a with Some c => ch_number c <? two64 | None => true end = true.
Lemma xm_attr_ok : forall a kv a', xm_acc_ok a -> xm_attr a kv = Ok a' -> xm_acc_ok a'.
Proof.
  intros a [k v] a' Ha H. unfold xm_attr in H. pose proof (unquote_clean v) as Hu.
  destruct Ha as [A1 [A2 [A3 [A4 [A5 [A6 [A7 [A8 A9]]]]]]]].
  repeat match type of H with
  | (if ?c then _ else _) = _ => destruct c
  end;
  try (apply bind_ok in H; let x := fresh "x" in let Hx := fresh "Hx" in destruct H as [x [Hx H]]);
  inversion H; subst; unfold xm_acc_ok; cbn [ma_type ma_uri ma_group ma_lang ma_assoc ma_name ma_default
    ma_autoselect ma_forced ma_instream ma_chars ma_channels oclean]; repeat split; try assumption.
  - apply enum_parse_bound in Hx. pose proof enum_sizes as [_ [E _]]. rewrite E in Hx. exact Hx.
  - apply enum_parse_bound in Hx. pose proof enum_sizes as [_ [_ [_ E]]]. rewrite E in Hx. apply N.ltb_lt. exact Hx.
  - apply (parse_channels_bound _ _ Hx).
Qed.
Lemma xm_empty_ok : xm_acc_ok xm_empty.
Proof. unfold xm_acc_ok, xm_empty. cbn. repeat split. Qed.

Lemma xm_validate_of : forall a m, xm_validate a = true -> xm_build a = Ok m -> xm_validate (xm_of m) = true.
Proof.
  intros a m Hv H. unfold xm_build in H. rewrite Hv in H.
  destruct (ma_type a) as [t|] eqn:Et; [|discriminate]. cbn [of_opt bind] in H.
  destruct (ma_group a) as [g|]; [|discriminate]. cbn [of_opt bind] in H.
  destruct (ma_name a) as [n|]; [|discriminate]. cbn [of_opt bind] in H. inversion H; subst. clear H.
  unfold xm_validate in *. rewrite Et in Hv. unfold xm_of. cbn [xa xm_type xm_uri xm_group xm_lang xm_assoc xm_name
    xm_default xm_autoselect xm_forced xm_instream xm_chars xm_channels ma_type ma_uri ma_group ma_lang ma_assoc ma_name
    ma_default ma_autoselect ma_forced ma_instream ma_chars ma_channels].
  repeat (apply andb_true_iff in Hv; let H2 := fresh "V" in destruct Hv as [Hv H2]).
  rewrite Hv, V1. cbn [andb].
  assert (E1 : forall b, obool (bopt b) = b) by (intros [|]; reflexivity). rewrite !E1, V.
  destruct (obool (ma_default a)); [|reflexivity]. destruct (obool (ma_autoselect a)); reflexivity.
Qed.

Theorem parsed_xmedia_wf : forall l m, parse_xmedia l = Ok m -> wf_xmedia m = true.
Proof.
  intros l m H. unfold parse_xmedia in H. apply bind_ok in H. destruct H as [rest [_ H]].
  apply bind_ok in H. destruct H as [a [Ha H]].
  pose proof (fold_res_inv _ _ xm_attr xm_acc_ok xm_attr_ok _ _ _ xm_empty_ok Ha) as Hok.
  assert (Hv : xm_validate a = true) by (unfold xm_build in H; destruct (xm_validate a); [reflexivity | discriminate]).
  pose proof (xm_validate_of a m Hv H) as Hvo.
  unfold xm_build in H. rewrite Hv in H.
  destruct Hok as [A1 [A2 [A3 [A4 [A5 [A6 [A7 [A8 A9]]]]]]]].
  destruct (ma_type a) as [t|]; [|discriminate]. cbn [of_opt bind] in H.
  destruct (ma_group a) as [g|]; [|discriminate]. cbn [of_opt bind] in H.
  destruct (ma_name a) as [n|]; [|discriminate]. cbn [of_opt bind] in H. inversion H; subst. clear H.
  unfold wf_xmedia. rewrite Hvo. cbn [xm_type xm_uri xm_group xm_lang xm_assoc xm_name xm_instream xm_chars xm_channels].
  cbn [oclean] in A3, A6. apply N.ltb_lt in A1. rewrite A1, A2, A3, A4, A5, A6, A7, A8, A9. reflexivity.
Qed.

(* ---------- EXT-X-SESSION-DATA ---------- *)
Definition xs_acc_ok (a : xs_acc) : Prop :=
  oclean (xa_id a) = true /\ oclean (xa_value a) = true /\ oclean (xa_uri a) = true /\ oclean (xa_lang a) = true.
Lemma xs_attr_ok : forall a kv a', xs_acc_ok a -> xs_attr a kv = Ok a' -> xs_acc_ok a'.
Proof.
  intros a [k v] a' [A1 [A2 [A3 A4]]] H. unfold xs_attr in H. pose proof (unquote_clean v) as Hu.
  repeat match type of H with (if ?c then _ else _) = _ => destruct c end;
  inversion H; subst; unfold xs_acc_ok; cbn [xa_id xa_value xa_uri xa_lang oclean]; repeat split; assumption.
Qed.
Theorem parsed_sdata_wf : forall l d, parse_session_data l = Ok d -> wf_sdata d = true.
Proof.
  intros l d H. unfold parse_session_data in H. apply bind_ok in H. destruct H as [rest [_ H]].
  apply bind_ok in H. destruct H as [a [Ha H]].
  assert (H0 : xs_acc_ok {| xa_id := None; xa_value := None; xa_uri := None; xa_lang := None |}) by (repeat split).
  destruct (fold_res_inv _ _ xs_attr xs_acc_ok xs_attr_ok _ _ _ H0 Ha) as [A1 [A2 [A3 A4]]].
  destruct (xa_id a) as [id|]; [|discriminate]. cbn [of_opt bind] in H.
  unfold wf_sdata. destruct (xa_value a) as [v|], (xa_uri a) as [u|]; try discriminate; cbn [bind] in H;
    inversion H; subst; cbn [xs_id xs_data xs_lang]; cbn [oclean] in *; rewrite A1, A4, ?A2, ?A3; reflexivity.
Qed.

(* ---------- DecryptionKey ---------- *)
Lemma hex_val_bound : forall c v, hex_val c = Some v -> v < 16 /\ c < 128.
Proof.
  intros c v H. unfold hex_val, is_digit in H.
  destruct ((48 <=? c) && (c <=? 57)) eqn:E1; [inversion H; lia|].
  destruct ((97 <=? c) && (c <=? 102)) eqn:E2; [inversion H; lia|].
  destruct ((65 <=? c) && (c <=? 70)) eqn:E3; [inversion H; lia | discriminate].
Qed.
Lemma list_ind2 : forall A (P : list A -> Prop), P [] -> (forall a, P [a]) ->
  (forall a b r, P r -> P (a :: b :: r)) -> forall l, P l.
Proof.
  intros A P H0 H1 H2. fix IH 1. intros [|a [|b r]]; [exact H0 | apply H1 | apply H2, IH].
Qed.
Lemma hex_decode_facts : forall s bs, hex_decode s = Some bs ->
  List.length s = (2 * List.length bs)%nat /\ forallb (fun b => b <? 256) bs = true
  /\ forallb (fun c => c <? 128) s = true.
Proof.
  induction s as [|a|a b r IH] using list_ind2; intros bs H; cbn [hex_decode] in H.
  - inversion H. repeat split.
  - discriminate.
  - destruct (hex_val a) as [x|] eqn:Ea; [|discriminate]. destruct (hex_val b) as [y|] eqn:Eb; [|discriminate].
    destruct (hex_decode r) as [t|] eqn:Er; [|discriminate]. inversion H; subst.
    destruct (IH t eq_refl) as [L [B C]]. destruct (hex_val_bound _ _ Ea), (hex_val_bound _ _ Eb).
    cbn [List.length forallb]. rewrite B, C, !andb_true_r. split; [lia|]. split.
    + apply N.ltb_lt. lia.
    + apply andb_true_iff. split; apply N.ltb_lt; lia.
Qed.
Lemma parsed_iv_wf : forall s iv, parse_iv s = Ok iv -> iv_wf iv = true.
Proof.
  intros s iv H. unfold parse_iv in H.
  destruct (match strip_prefix s_0x s with Some r => Some r | None => strip_prefix s_0X s end) as [r|]; [|discriminate].
  destruct (byte_len r =? 32) eqn:E; [|discriminate]. destruct (hex_decode r) as [bs|] eqn:Eh; [|discriminate].
  inversion H; subst. destruct (hex_decode_facts _ _ Eh) as [L [B C]]. cbn [iv_wf]. rewrite B, andb_true_r.
  apply N.eqb_eq in E. rewrite (byte_len_ascii _ C) in E. apply Nat.eqb_eq. unfold char in *. lia.
Qed.
Lemma parsed_kf_wf : forall v, kf_wf (parse_key_format v) = true.
Proof.
  intros v. unfold parse_key_format.
  destruct (str_eqb (unquote v) s_identity) eqn:E1; [reflexivity|].
  destruct (str_eqb (unquote v) s_fairplay) eqn:E2; [reflexivity|].
  destruct (str_eqb (unquote v) s_widevine) eqn:E3; [reflexivity|].
  destruct (str_eqb (unquote v) s_playready) eqn:E4; [reflexivity|].
  cbn [kf_wf]. unfold known_kf. rewrite unquote_clean, E1, E2, E3, E4. reflexivity.
Qed.
Lemma kfv_items_wf : forall l n v, parse_kfv_items l n = Ok v ->
  (List.length v <= n)%nat /\ List.length v = List.length l /\ forallb (fun x => x <? 256) v = true.
Proof.
  induction l as [|x l IH]; intros n v H; cbn [parse_kfv_items] in H.
  - inversion H; subst. repeat split. simpl. lia.
  - apply bind_ok in H. destruct H as [a [Ha H]]. destruct n as [|n']; [discriminate|].
    apply bind_ok in H. destruct H as [t [Ht H]]. inversion H; subst.
    destruct (IH _ _ Ht) as [L1 [L2 B]]. cbn [List.length forallb]. rewrite B.
    unfold parse_u8 in Ha. destruct (parse_uint 8 x) as [w|] eqn:E; [|discriminate]. inversion Ha; subst.
    apply parse_uint_bound in E. change (2 ^ 8) with 256 in E. repeat split; lia.
Qed.
Lemma parsed_kfv_wf : forall s v, parse_kfv s = Ok v -> kfv_wf v = true.
Proof.
  intros s v H. unfold parse_kfv in H. destruct (kfv_items_wf _ _ _ H) as [L1 [L2 B]].
  unfold kfv_wf. rewrite B, andb_true_r. apply andb_true_iff. split.
  - pose proof (split_on_nonempty 47 (unquote s)). destruct (split_on 47 (unquote s)); [congruence|].
    destruct v; [discriminate L2 | reflexivity].
  - apply Nat.leb_le. exact L1.
Qed.

Definition key_acc_wf (a : key_acc) : Prop :=
  match ka_method a with Some m => m < 2 | None => True end
  /\ match ka_uri a with Some u => clean_quoted u = true /\ is_nil (trim u) = false | None => True end
  /\ match ka_iv a with Some iv => iv_wf iv = true | None => True end
  /\ match ka_format a with Some f => kf_wf f = true | None => True end
  /\ match ka_versions a with Some v => kfv_wf v = true | None => True end.
Lemma key_attr_wf : forall a kv a', key_acc_wf a -> key_attr a kv = Ok a' -> key_acc_wf a'.
Proof.
  intros a [k v] a' [A1 [A2 [A3 [A4 A5]]]] H. unfold key_attr in H.
  destruct (str_eqb k s_METHOD).
  { apply bind_ok in H. destruct H as [m [Hm H]]. inversion H; subst. unfold key_acc_wf.
    cbn [ka_method ka_uri ka_iv ka_format ka_versions]. repeat split; try assumption.
    apply enum_parse_bound in Hm. pose proof enum_sizes as [E _]. rewrite E in Hm. exact Hm. }
  destruct (str_eqb k s_URI).
  { cbv zeta in H. destruct (is_nil (trim (unquote v))) eqn:En; inversion H; subst; unfold key_acc_wf;
      cbn [ka_method ka_uri ka_iv ka_format ka_versions]; repeat split; try assumption. apply unquote_clean. }
  destruct (str_eqb k s_IV).
  { apply bind_ok in H. destruct H as [iv [Hiv H]]. inversion H; subst. unfold key_acc_wf.
    cbn [ka_method ka_uri ka_iv ka_format ka_versions]. repeat split; try assumption. apply (parsed_iv_wf _ _ Hiv). }
  destruct (str_eqb k s_KEYFORMAT).
  { inversion H; subst. unfold key_acc_wf. cbn [ka_method ka_uri ka_iv ka_format ka_versions].
    repeat split; try assumption. apply parsed_kf_wf. }
  destruct (str_eqb k s_KEYFORMATVERSIONS).
  { apply bind_ok in H. destruct H as [vs [Hvs H]]. inversion H; subst. unfold key_acc_wf.
    cbn [ka_method ka_uri ka_iv ka_format ka_versions]. repeat split; try assumption. apply (parsed_kfv_wf _ _ Hvs). }
  inversion H; subst. repeat split; assumption.
Qed.
Theorem parsed_key_wf : forall s k, parse_decryption_key s = Ok k -> wf_key k = true.
Proof.
  intros s k H. unfold parse_decryption_key in H. apply bind_ok in H. destruct H as [a [Ha H]].
  assert (H0 : key_acc_wf {| ka_method := None; ka_uri := None; ka_iv := None; ka_format := None; ka_versions := None |})
    by (repeat split).
  destruct (fold_res_inv _ _ key_attr key_acc_wf key_attr_wf _ _ _ H0 Ha) as [A1 [A2 [A3 [A4 A5]]]].
  destruct (ka_method a) as [m|]; [|discriminate]. cbn [of_opt bind] in H.
  destruct (ka_uri a) as [u|]; [|discriminate]. cbn [of_opt bind] in H. inversion H; subst. clear H.
  destruct A2 as [A2 A2']. unfold wf_key. cbn [k_method k_uri k_iv k_format k_versions].
  apply N.ltb_lt in A1. rewrite A1, A2, A2'. cbn [negb andb].
  assert (Hiv : iv_wf match ka_iv a with Some iv => iv | None => IvMissing end = true)
    by (destruct (ka_iv a); [exact A3 | reflexivity]).
  rewrite Hiv. cbn [andb].
  destruct (ka_format a); [rewrite A4|]; destruct (ka_versions a); rewrite ?A5; reflexivity.
Qed.

(* ---------- StreamData and the variant streams ---------- *)
Definition sd_acc_ok (a : sd_acc) : Prop :=
  match sa_bw a with Some n => n <? two64 | None => true end = true
  /\ match sa_avg a with Some v => v <? two64 | None => true end = true
  /\ match sa_codecs a with Some c => wf_codecs c | None => true end = true
  /\ match sa_res a with Some r => (fst r <? two64) && (snd r <? two64) | None => true end = true
  /\ match sa_hdcp a with Some h => h <? 2 | None => true end = true
  /\ oclean (sa_video a) = true.
Lemma sd_attr_ok : forall a kv a', sd_acc_ok a -> sd_attr a kv = Ok a' -> sd_acc_ok a'.
Proof.
  intros a [k v] a' [A1 [A2 [A3 [A4 [A5 A6]]]]] H. unfold sd_attr in H.
  repeat match type of H with (if ?c then _ else _) = _ => destruct c end;
  try (apply bind_ok in H; let x := fresh "x" in let Hx := fresh "Hx" in destruct H as [x [Hx H]]);
  inversion H; subst; unfold sd_acc_ok; cbn [sa_bw sa_avg sa_codecs sa_res sa_hdcp sa_video oclean];
  repeat split; try assumption.
  - apply (parse_u64_bound _ _ Hx).
  - apply (parse_u64_bound _ _ Hx).
  - apply codecs_wf.
  - apply (parse_resolution_bound _ _ Hx).
  - apply enum_parse_bound in Hx. pose proof enum_sizes as [_ [_ [E _]]]. rewrite E in Hx. apply N.ltb_lt. exact Hx.
  - apply unquote_clean.
Qed.
Theorem parsed_sd_wf : forall s d, parse_stream_data s = Ok d -> wf_sd d = true.
Proof.
  intros s d H. unfold parse_stream_data in H. apply bind_ok in H. destruct H as [a [Ha H]].
  assert (H0 : sd_acc_ok {| sa_bw := None; sa_avg := None; sa_codecs := None; sa_res := None; sa_hdcp := None; sa_video := None |})
    by (repeat split).
  destruct (fold_res_inv _ _ sd_attr sd_acc_ok sd_attr_ok _ _ _ H0 Ha) as [A1 [A2 [A3 [A4 [A5 A6]]]]].
  destruct (sa_bw a) as [bw|]; [|discriminate]. cbn [of_opt bind] in H. inversion H; subst.
  unfold wf_sd. cbn [sd_bandwidth sd_avg sd_codecs sd_resolution sd_hdcp sd_video].
  rewrite A1, A2, A3, A4, A5, A6. reflexivity.
Qed.

Definition wf_variant_s (v : Variant) : bool :=
  match v with
  | VIFrame u sd => clean_quoted u && wf_sd sd
  | VStreamInf u fr au su cc sd =>
      good_line u && oclean au && oclean su && match cc with Some c => cc_wf c | None => true end && wf_sd sd
  end.
Definition floats_variant (v : Variant) : bool :=
  match v with VStreamInf _ (Some x) _ _ _ _ => ufloat_rt x | _ => true end.
Lemma wf_variant_split : forall v, wf_variant_s v = true -> floats_variant v = true -> wf_variant v = true.
Proof.
  intros [u sd | u fr au su cc sd] Hs Hf; [exact Hs|]. cbn [wf_variant_s wf_variant floats_variant] in *.
  do 4 (apply andb_true_iff in Hs; let H2 := fresh "W" in destruct Hs as [Hs H2]).
  rewrite Hs, W, W0, W1, W2. destruct fr; [rewrite Hf|]; reflexivity.
Qed.

Definition si_acc_ok (a : si_acc) : Prop :=
  oclean (si_audio a) = true /\ oclean (si_subs a) = true
  /\ match si_cc a with Some c => cc_wf c | None => true end = true.
Lemma parsed_cc_wf : forall v, cc_wf (parse_cc v) = true.
Proof. intros v. unfold parse_cc. destruct (str_eqb (trim v) s_NONE); [reflexivity | apply unquote_clean]. Qed.
Lemma si_attr_ok : forall a kv a', si_acc_ok a -> si_attr a kv = Ok a' -> si_acc_ok a'.
Proof.
  intros a [k v] a' [A1 [A2 A3]] H. unfold si_attr in H.
  repeat match type of H with (if ?c then _ else _) = _ => destruct c end;
  try (apply bind_ok in H; let x := fresh "x" in let Hx := fresh "Hx" in destruct H as [x [Hx H]]);
  inversion H; subst; unfold si_acc_ok; cbn [si_fr si_audio si_subs si_cc oclean]; repeat split; try assumption;
  try apply unquote_clean. apply parsed_cc_wf.
Qed.
Theorem parsed_streaminf_wf : forall l u v, good_line u = true -> parse_streaminf l u = Ok v -> wf_variant_s v = true.
Proof.
  intros l u v Hu H. unfold parse_streaminf in H. apply bind_ok in H. destruct H as [rest [_ H]].
  apply bind_ok in H. destruct H as [a [Ha H]]. apply bind_ok in H. destruct H as [sd [Hsd H]].
  assert (H0 : si_acc_ok {| si_fr := None; si_audio := None; si_subs := None; si_cc := None |}) by (repeat split).
  destruct (fold_res_inv _ _ si_attr si_acc_ok si_attr_ok _ _ _ H0 Ha) as [A1 [A2 A3]].
  inversion H; subst. cbn [wf_variant_s]. rewrite Hu, A1, A2, A3, (parsed_sd_wf _ _ Hsd). reflexivity.
Qed.
Lemma find_uri_clean : forall l u, find_uri l = Some u -> clean_quoted u = true.
Proof.
  induction l as [|[k v] l IH]; intros u H; [discriminate|]. cbn [find_uri] in H.
  destruct (str_eqb k s_URI); [inversion H; apply unquote_clean | apply IH, H].
Qed.
Theorem parsed_iframe_wf : forall l v, parse_iframe l = Ok v -> wf_variant_s v = true.
Proof.
  intros l v H. unfold parse_iframe in H. apply bind_ok in H. destruct H as [rest [_ H]].
  apply bind_ok in H. destruct H as [u [Hu H]]. apply bind_ok in H. destruct H as [sd [Hsd H]].
  inversion H; subst. cbn [wf_variant_s]. rewrite (parsed_sd_wf _ _ Hsd), andb_true_r.
  destruct (find_uri (attr_pairs rest)) as [u'|] eqn:E; [|discriminate]. inversion Hu; subst. apply (find_uri_clean _ _ E).
Qed.

(* ---------- lines ---------- *)
Lemma trim_start_first : forall s, trim_start s = [] \/ first_ok (trim_start s) = true.
Proof.
  induction s as [|c s IH]; [left; reflexivity|]. cbn [trim_start]. destruct (is_ws c) eqn:E; [exact IH|].
  right. simpl. rewrite E. reflexivity.
Qed.
Lemma trim_start_suffix : forall s, exists w, s = w ++ trim_start s.
Proof.
  induction s as [|c s [w Hw]]; [exists []; reflexivity|]. cbn [trim_start]. destruct (is_ws c).
  - exists (c :: w). simpl. f_equal. exact Hw.
  - exists []. reflexivity.
Qed.
Lemma trim_good : forall s, trim s <> [] -> first_ok (trim s) = true /\ first_ok (rev (trim s)) = true.
Proof.
  intros s Hne. unfold trim, trim_end in *. rewrite rev_involutive.
  destruct (trim_start_first (rev (trim_start s))) as [E | Hl]; [rewrite E in Hne; simpl in Hne; congruence|].
  split; [|exact Hl].
  (* first char: the trimmed-at-the-end string is a prefix of trim_start s, whose first char is not ws *)
  destruct (trim_start_suffix (rev (trim_start s))) as [w Hw].
  apply (f_equal (@rev char)) in Hw. rewrite rev_involutive, rev_app_distr in Hw.
  destruct (trim_start_first s) as [E | Hf]; [rewrite E in Hne; simpl in Hne; congruence|].
  rewrite Hw in Hf. destruct (rev (trim_start (rev (trim_start s)))) as [|c r]; [congruence|]. exact Hf.
Qed.
Lemma split_on_no_sep_in : forall c s p, In p (split_on c s) -> no_char c p = true.
Proof. intros c s p H. apply (split_on_pieces c s p H). Qed.
Lemma trim_subset : forall s x, In x (trim s) -> In x s.
Proof.
  intros s x H. unfold trim, trim_end in H. apply in_rev in H.
  destruct (trim_start_suffix (rev (trim_start s))) as [w Hw].
  assert (In x (rev (trim_start s))) by (rewrite Hw; apply in_or_app; right; exact H).
  apply in_rev in H0. destruct (trim_start_suffix s) as [w2 Hw2]. rewrite Hw2. apply in_or_app. right. exact H0.
Qed.
Lemma clean_lines_good_line : forall s l, In l (clean_lines s) -> good_line l = true.
Proof.
  intros s l H. unfold clean_lines in H. apply filter_In in H. destruct H as [Hin Hne].
  apply in_map_iff in Hin. destruct Hin as [p [<- Hp]].
  assert (Hn : trim p <> []) by (destruct (trim p); [discriminate | discriminate]).
  destruct (trim_good p Hn) as [G1 G2]. unfold good_line. rewrite G1, G2. cbn [andb].
  pose proof (split_on_no_sep_in _ _ _ Hp) as Hnc. unfold no_lf, no_char in *. rewrite forallb_forall in *.
  intros x Hx. apply Hnc, trim_subset, Hx.
Qed.

(* ---------- items ---------- *)
Definition item_wf (l : line) : Prop :=
  match l with
  | LTag (TMedia m) => wf_xmedia m = true
  | LTag (TVariant v) => wf_variant_s v = true
  | LTag (TSessionData d) => wf_sdata d = true
  | LTag (TSessionKey k) => wf_key k = true
  | LTag (TUnknown u) => wf_unknown u = true
  | _ => True
  end.
Lemma parse_kind_item_wf : forall k l t, good_line l = true -> starts_with s_hashEXT l = true ->
  starts_with pairing_prefix l = false -> k = classify l -> parse_kind k l = Ok t -> item_wf (LTag t).
Proof.
  intros k l t Hg Hh Hp Hk H.
  destruct k; cbn [parse_kind] in H;
    try (apply rmap_ok in H; destruct H as [a [Ha ->]]; cbn [item_wf]; try exact I).
  - apply (parsed_xmedia_wf _ _ Ha).
  - apply (parsed_sdata_wf _ _ Ha).
  - unfold parse_session_key in Ha. apply bind_ok in Ha. destruct Ha as [rest [_ Ha]]. apply (parsed_key_wf _ _ Ha).
  - destruct (is_ok (tag l pfx_VariantStream_EXTXIFRAME)); [|discriminate].
    apply rmap_ok in H. destruct H as [a [Ha ->]]. cbn [item_wf]. apply (parsed_iframe_wf _ _ Ha).
  - inversion H; subst. cbn [item_wf]. unfold wf_unknown. rewrite Hg, Hh, Hp, <- Hk. reflexivity.
Qed.
Lemma items_item_wf : forall ls, (forall x, In x ls -> good_line x = true) ->
  forall l, In (Ok l) (items ls) -> item_wf l.
Proof.
  fix IH 1. intros ls Hall l Hin. destruct ls as [|x rest]; cbn [items] in Hin; [destruct Hin|].
  assert (Hx : good_line x = true) by (apply Hall; left; reflexivity).
  assert (Hrest : forall y, In y rest -> good_line y = true) by (intros y Hy; apply Hall; right; exact Hy).
  destruct (starts_with pairing_prefix x) eqn:Ep.
  - destruct rest as [|u rest'].
    + destruct missing_uri_is_error; cbn [In] in Hin; [destruct Hin as [H|H]; [discriminate|destruct H] | destruct Hin].
    + cbn [In] in Hin. destruct Hin as [H | Hin].
      * apply rmap_ok in H. destruct H as [v [Hv ->]]. cbn [item_wf].
        apply (parsed_streaminf_wf x u v); [apply Hrest; left; reflexivity | exact Hv].
      * apply (IH rest'); [intros y Hy; apply Hrest; right; exact Hy | exact Hin].
  - destruct (starts_with s_hashEXT x) eqn:Eh.
    + cbn [In] in Hin. destruct Hin as [H | Hin]; [|exact (IH rest Hrest l Hin)].
      apply rmap_ok in H. destruct H as [t [Ht ->]].
      apply (parse_kind_item_wf (classify x) x t Hx Eh Ep eq_refl Ht).
    + destruct (starts_with [35] x); cbn [In] in Hin;
        (destruct Hin as [H | Hin]; [inversion H; exact I | exact (IH rest Hrest l Hin)]).
Qed.

(* ---------- the parser state ---------- *)
Definition mstate_wf (s : mstate) : Prop :=
  forallb wf_xmedia (ms_media s) = true /\ forallb wf_variant_s (ms_variants s) = true
  /\ forallb wf_sdata (ms_sdata s) = true /\ forallb wf_key (ms_skeys s) = true
  /\ forallb wf_unknown (ms_unknown s) = true.
Lemma mstep_wf : forall s l s', mstate_wf s -> item_wf l -> mstep s l = Ok s' -> mstate_wf s'.
Proof.
  intros s l s' [A1 [A2 [A3 [A4 A5]]]] Hl H. destruct l as [t| |u]; cbn [mstep] in H; try discriminate.
  - destruct (in_kinds (kind_of t) master_rejects); [discriminate|].
    destruct t; try discriminate; inversion H; subst; unfold mstate_wf;
      cbn [ms_media ms_variants ms_sdata ms_skeys ms_unknown forallb]; cbn [item_wf] in Hl;
      rewrite ?Hl; repeat split; assumption.
  - inversion H; subst. repeat split; assumption.
Qed.
Lemma mrun_lines_wf : forall ls s s', mstate_wf s -> (forall l, In (Ok l) ls -> item_wf l) ->
  mrun_lines s ls = Ok s' -> mstate_wf s'.
Proof.
  induction ls as [|r ls IH]; intros s s' Hs Hall H; cbn [mrun_lines] in H.
  - inversion H; subst. exact Hs.
  - apply bind_ok in H. destruct H as [l [Hr H]]. subst r. apply bind_ok in H. destruct H as [s1 [Hs1 H]].
    apply (IH s1 s'); [|intros y Hy; apply Hall; right; exact Hy | exact H].
    apply (mstep_wf s l s1 Hs); [apply Hall; left; reflexivity | exact Hs1].
Qed.

Definition wf_master_s (p : MasterPlaylist) : bool :=
  forallb wf_xmedia (ma_media p) && forallb wf_variant_s (ma_variants p) && forallb wf_sdata (ma_sdata p)
  && forallb wf_key (ma_skeys p) && forallb wf_unknown (ma_unknown p).
Definition floats_master (p : MasterPlaylist) : bool :=
  forallb floats_variant (ma_variants p) && match ma_start p with Some s => wf_start s | None => true end.
Lemma forallb_rev : forall A (f : A -> bool) l, forallb f (rev l) = forallb f l.
Proof.
  intros A f l. induction l as [|x l IH]; [reflexivity|]. cbn [rev forallb]. rewrite forallb_app, IH.
  cbn [forallb]. rewrite andb_true_r, andb_comm. reflexivity.
Qed.
Lemma wf_master_split : forall p, wf_master_s p = true -> floats_master p = true -> wf_master p = true.
Proof.
  intros p Hs Hf. unfold wf_master_s in Hs. unfold floats_master in Hf.
  repeat (apply andb_true_iff in Hs; let H2 := fresh "W" in destruct Hs as [Hs H2]).
  apply andb_true_iff in Hf. destruct Hf as [F1 F2].
  unfold wf_master. rewrite Hs, W1, W0, W, F2. cbn [andb]. rewrite !andb_true_r.
  rewrite forallb_forall in *. intros v Hv. apply wf_variant_split; [apply W2, Hv | apply F1, Hv].
Qed.

Theorem parsed_master_wf : forall s p, parse_master s = Ok p -> wf_master_s p = true.
Proof.
  intros s p H. unfold parse_master in H. apply bind_ok in H. destruct H as [rest [_ H]].
  unfold parse_master_items in H. apply bind_ok in H. destruct H as [st [Hrun H]].
  assert (H0 : mstate_wf ms_init) by (repeat split).
  assert (Hall : forall l, In (Ok l) (lines_of rest) -> item_wf l).
  { intros l Hl. unfold lines_of in Hl. apply (items_item_wf (clean_lines rest)); [|exact Hl].
    intros x Hx. apply (clean_lines_good_line rest x Hx). }
  destruct (mrun_lines_wf _ _ _ H0 Hall Hrun) as [A1 [A2 [A3 [A4 A5]]]].
  unfold finish_master in H.
  match type of H with (if validate_master ?q then _ else _) = _ => destruct (validate_master q); [|discriminate] end.
  inversion H; subst. unfold wf_master_s. cbn [ma_media ma_variants ma_sdata ma_skeys ma_unknown].
  rewrite !forallb_rev, A1, A2, A3, A4, A5. reflexivity.
Qed.

(* C04 for values obtained by parsing: the only hypothesis left concerns the float attributes *)
Theorem parsed_master_roundtrip : forall s p, parse_master s = Ok p -> floats_master p = true ->
  parse_master (print_master p) = Ok p.
Proof.
  intros s p H Hf. apply master_text_roundtrip.
  - apply wf_master_split; [apply (parsed_master_wf s p H) | exact Hf].
  - unfold parse_master in H. apply bind_ok in H. destruct H as [rest [_ H]].
    unfold parse_master_items in H. apply bind_ok in H. destruct H as [st [_ H]]. unfold finish_master in H.
    match type of H with (if validate_master ?q then _ else _) = _ => destruct (validate_master q) eqn:E; [|discriminate] end.
    inversion H; subst. exact E.
Qed.
