(* Sweep.v — finite domains decided by evaluation: `forallb P (range s n) = true` lifted to `forall k, s <= k < s + n -> P k`.
   Used for the std float conversions on bounded decimal grids (the unbounded statements stay hypotheses, DESIGN.md). *)
From hls Require Import Base.
From Coq Require Import Lia.
Open Scope N_scope.

Fixpoint range (start : N) (len : nat) : list N :=
  match len with O => [] | S l => start :: range (start + 1) l end.
Lemma range_in : forall len start k, start <= k < start + N.of_nat len -> In k (range start len).
Proof.
  induction len as [|len IH]; intros start k H; [lia|]. cbn [range].
  destruct (N.eq_dec start k) as [->|Hne]; [left; reflexivity|]. right. apply IH. lia.
Qed.
Lemma sweep : forall (P : N -> bool) start len, forallb P (range start len) = true ->
  forall k, start <= k < start + N.of_nat len -> P k = true.
Proof. intros P start len H k Hk. rewrite forallb_forall in H. apply H. apply range_in. exact Hk. Qed.
