(* AttrOrder.v — the order of attributes with pairwise distinct names inside a tag does not
   matter: a generic theorem about attribute folds, instantiated for three tags. *)
From hls Require Import Base Float Lex Kinds Types Tags Line Keys Media Master.
From hls.Proofs Require Import EqFacts Build.
From Coq Require Import Permutation Lia.

Section Generic.
  Context {A : Type}.
  Variable f : A -> str * str -> res A.
  (* the effect of one attribute is a state-independent decision: an error, or an update *)
  Variable upd : str * str -> res (A -> A).
  Hypothesis f_form : forall a kv,
    f a kv = match upd kv with Ok g => Ok (g a) | Err => Err | Panic => Panic end.
  Hypothesis upd_np : forall kv, upd kv <> Panic.
  Hypothesis commute : forall kv1 kv2 g1 g2, upd kv1 = Ok g1 -> upd kv2 = Ok g2 ->
    fst kv1 <> fst kv2 -> forall a, g1 (g2 a) = g2 (g1 a).

  Lemma fold_two : forall x y l a, fst x <> fst y ->
    fold_res f (x :: y :: l) a = fold_res f (y :: x :: l) a.
  Proof.
    intros x y l a Hne. cbn [fold_res]. rewrite !f_form.
    destruct (upd x) as [gx| |] eqn:Ex; destruct (upd y) as [gy| |] eqn:Ey; cbn [bind];
      rewrite ?f_form, ?Ex, ?Ey; cbn [bind]; try reflexivity;
      try (exfalso; eapply upd_np; eassumption).
    rewrite (commute y x gy gx Ey Ex (fun H => Hne (eq_sym H)) a). reflexivity.
  Qed.

  Theorem attr_order_irrelevant : forall l1 l2, Permutation l1 l2 -> NoDup (map fst l1) ->
    forall a, fold_res f l1 a = fold_res f l2 a.
  Proof.
    induction 1 as [|x l1 l2 HP IH|x y l|l1 l2 l3 H12 IH12 H23 IH23]; intros Hnd a.
    - reflexivity.
    - cbn [fold_res]. destruct (f a x); cbn [bind]; try reflexivity.
      apply IH. inversion Hnd; assumption.
    - apply fold_two. inversion Hnd as [|? ? Hn _]; subst. intros E. apply Hn. left. symmetry. exact E.
    - rewrite IH12 by assumption. apply IH23.
      eapply Permutation_NoDup; [apply Permutation_map; eassumption | assumption].
  Qed.
End Generic.

(* ---------- EXT-X-SESSION-DATA ---------- *)
Definition xs_upd (kv : str * str) : res (xs_acc -> xs_acc) :=
  let '(k, v) := kv in
  if str_eqb k s_DATA_ID then Ok (fun a => {| xa_id := Some (unquote v); xa_value := xa_value a; xa_uri := xa_uri a; xa_lang := xa_lang a |})
  else if str_eqb k s_VALUE then Ok (fun a => {| xa_id := xa_id a; xa_value := Some (unquote v); xa_uri := xa_uri a; xa_lang := xa_lang a |})
  else if str_eqb k s_URI then Ok (fun a => {| xa_id := xa_id a; xa_value := xa_value a; xa_uri := Some (unquote v); xa_lang := xa_lang a |})
  else if str_eqb k s_LANGUAGE then Ok (fun a => {| xa_id := xa_id a; xa_value := xa_value a; xa_uri := xa_uri a; xa_lang := Some (unquote v) |})
  else Ok (fun a => a).

Ltac name_cases :=
  repeat match goal with
         | H : context [if str_eqb ?k ?c then _ else _] |- _ => destruct (str_eqb k c) eqn:?
         | |- context [if str_eqb ?k ?c then _ else _] => destruct (str_eqb k c) eqn:?
         end.
Ltac same_name_contra :=
  match goal with
  | H1 : str_eqb ?k1 ?c = true, H2 : str_eqb ?k2 ?c = true, Hne : ?k1 <> ?k2 |- _ =>
      apply str_eqb_eq in H1; apply str_eqb_eq in H2; exfalso; apply Hne; congruence
  end.

Theorem session_data_attr_order : forall l1 l2, Permutation l1 l2 -> NoDup (map fst l1) ->
  forall a, fold_res xs_attr l1 a = fold_res xs_attr l2 a.
Proof.
  apply (attr_order_irrelevant xs_attr xs_upd).
  - intros a [k v]. unfold xs_attr, xs_upd. name_cases; reflexivity.
  - intros [k v]. unfold xs_upd. name_cases; discriminate.
  - intros [k1 v1] [k2 v2] g1 g2 H1 H2 Hne a. simpl in Hne. unfold xs_upd in H1, H2.
    name_cases; inversion H1; inversion H2; subst; try reflexivity; same_name_contra.
Qed.

(* ---------- EXT-X-START ---------- *)
Definition start_upd (kv : str * str) : res (option fval * bool -> option fval * bool) :=
  let '(k, v) := kv in
  if str_eqb k s_TIME_OFFSET then match parse_float v with Ok x => Ok (fun a => (Some x, snd a)) | _ => Err end
  else if str_eqb k s_PRECISE then match parse_yes_or_no v with Ok b => Ok (fun a => (fst a, b)) | _ => Err end
  else Ok (fun a => a).

From hls.Proofs Require Import Parse MediaProps NoPanic.

Theorem start_attr_order : forall l1 l2, Permutation l1 l2 -> NoDup (map fst l1) ->
  forall a, fold_res start_attr l1 a = fold_res start_attr l2 a.
Proof.
  apply (attr_order_irrelevant start_attr start_upd).
  - intros a [k v]. unfold start_attr, start_upd. name_cases; try reflexivity.
    + pose proof (parse_float_np v). destruct (parse_float v); simpl; congruence.
    + pose proof (parse_yes_or_no_np v). destruct (parse_yes_or_no v); simpl; congruence.
  - intros [k v]. unfold start_upd. name_cases; try discriminate.
    + destruct (parse_float v); discriminate.
    + destruct (parse_yes_or_no v); discriminate.
  - intros [k1 v1] [k2 v2] g1 g2 H1 H2 Hne a. simpl in Hne. unfold start_upd in H1, H2.
    name_cases;
      repeat match goal with
             | H : match ?r with Ok _ => _ | Err => _ | Panic => _ end = Ok _ |- _ => destruct r; try discriminate
             end;
      inversion H1; inversion H2; subst; try reflexivity; same_name_contra.
Qed.

(* ---------- EXT-X-MAP ---------- *)
Definition map_upd (kv : str * str) : res (option str * option ByteRange -> option str * option ByteRange) :=
  let '(k, v) := kv in
  if str_eqb k s_URI then Ok (fun a => (Some (unquote v), snd a))
  else if str_eqb k s_BYTERANGE then match parse_byte_range (unquote v) with Ok r => Ok (fun a => (fst a, Some r)) | _ => Err end
  else Ok (fun a => a).

Theorem map_attr_order : forall l1 l2, Permutation l1 l2 -> NoDup (map fst l1) ->
  forall a, fold_res map_attr l1 a = fold_res map_attr l2 a.
Proof.
  apply (attr_order_irrelevant map_attr map_upd).
  - intros a [k v]. unfold map_attr, map_upd. name_cases; try reflexivity.
    pose proof (parse_byte_range_np (unquote v)). destruct (parse_byte_range (unquote v)); simpl; congruence.
  - intros [k v]. unfold map_upd. name_cases; try discriminate.
    destruct (parse_byte_range (unquote v)); discriminate.
  - intros [k1 v1] [k2 v2] g1 g2 H1 H2 Hne a. simpl in Hne. unfold map_upd in H1, H2.
    name_cases;
      repeat match goal with
             | H : match ?r with Ok _ => _ | Err => _ | Panic => _ end = Ok _ |- _ => destruct r; try discriminate
             end;
      inversion H1; inversion H2; subst; try reflexivity; same_name_contra.
Qed.

(* unknown attribute names are ignored *)
Theorem session_data_unknown_attr : forall a k v,
  str_eqb k s_DATA_ID = false -> str_eqb k s_VALUE = false -> str_eqb k s_URI = false ->
  str_eqb k s_LANGUAGE = false -> xs_attr a (k, v) = Ok a.
Proof. intros a k v H1 H2 H3 H4. unfold xs_attr. rewrite H1, H2, H3, H4. reflexivity. Qed.
