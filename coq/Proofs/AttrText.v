(* AttrText.v — attribute lists as the writers print them (NAME=value joined by commas, no
   padding) and what the tokenizer returns for them; which printed values are safe. *)
From hls Require Import Base Float Lex Kinds Types Tags Line Keys Media Master.
From hls.Generated Require Import Tables.
From hls.Proofs Require Import EqFacts C16 C12 Lexical Values TextLines.
From Coq Require Import Lia.
Open Scope N_scope.

Notation kv := (str * str)%type (only parsing).
Definition render_kv (p : kv) : str := fst p ++ 61 :: snd p.
Definition render_tail (l : list kv) : str := flat_map (fun p => 44 :: render_kv p) l.
Definition render_kvs (l : list kv) : str :=
  match l with [] => [] | p :: r => render_kv p ++ render_tail r end.
Definition okv {A} (o : option A) (f : A -> kv) : list kv := match o with Some x => [f x] | None => [] end.
Definition bkv (b : bool) (p : kv) : list kv := if b then [p] else [].

Lemma render_tail_app : forall a b, render_tail (a ++ b) = render_tail a ++ render_tail b.
Proof. intros. unfold render_tail. apply flat_map_app. Qed.

(* rendering of the pieces the writers are built from *)
Definition oapp {A} (pre : str) (f : A -> str) (o : option A) : str :=
  match o with Some x => pre ++ f x | None => [] end.
Lemma render_tail_okv : forall A (o : option A) (k : str) (f : A -> str),
  render_tail (okv o (fun x => (k, f x))) = oapp (44 :: k ++ [61]) f o.
Proof.
  intros A [x|] k f; [|reflexivity]. unfold oapp, render_kv. simpl. rewrite app_nil_r, <- app_assoc. reflexivity.
Qed.
Lemma render_tail_bkv : forall b k v, render_tail (bkv b (k, v)) = if b then (44 :: k ++ [61]) ++ v else [].
Proof.
  intros [|] k v; [|reflexivity]. unfold render_kv. simpl. rewrite app_nil_r, <- app_assoc. reflexivity.
Qed.
Lemma render_tail_cons : forall k v l, render_tail ((k, v) :: l) = (44 :: k ++ [61]) ++ v ++ render_tail l.
Proof.
  intros. unfold render_tail. cbn [flat_map]. unfold render_kv. cbn [fst snd app]. rewrite <- !app_assoc. reflexivity.
Qed.
Lemma render_kv_app : forall k v t, render_kv (k, v) ++ t = (k ++ [61]) ++ v ++ t.
Proof. intros. unfold render_kv. simpl. rewrite <- !app_assoc. reflexivity. Qed.

(* ---------- safe keys and values ---------- *)
Definition plain_char (c : char) : bool := negb (is_ws c) && negb (c =? 34) && negb (c =? 44).
Definition plain (s : str) : bool := forallb plain_char s.
Definition key_ok (k : str) : bool :=
  negb (is_nil k) && forallb (fun c => plain_char c && negb (c =? 61)) k.
Definition val_ok (v : str) : Prop := trim v = v /\ scan false v = Some false.
Definition kv_ok (p : kv) : Prop := key_ok (fst p) = true /\ val_ok (snd p).

Lemma trim_no_ws : forall s, forallb (fun c => negb (is_ws c)) s = true -> trim s = s.
Proof.
  intros s H. destruct s as [|c s]; [reflexivity|]. apply trim_edges.
  - simpl in *. apply andb_true_iff in H. tauto.
  - assert (Hr : forallb (fun c => negb (is_ws c)) (rev (c :: s)) = true).
    { rewrite forallb_forall in *. intros x Hx. apply H. apply in_rev. exact Hx. }
    destruct (rev (c :: s)) as [|d r] eqn:E.
    + apply (f_equal (@List.length char)) in E. rewrite rev_length in E. discriminate.
    + simpl in Hr. apply andb_true_iff in Hr. tauto.
Qed.
Lemma plain_no_ws : forall s, plain s = true -> forallb (fun c => negb (is_ws c)) s = true.
Proof.
  intros s H. unfold plain in H. rewrite forallb_forall in *. intros c Hc. specialize (H c Hc).
  unfold plain_char in H. apply andb_true_iff in H. destruct H as [H _]. apply andb_true_iff in H. tauto.
Qed.
Lemma scan_plain : forall s q, plain s = true -> scan q s = Some q.
Proof.
  induction s as [|c s IH]; intros q H; [reflexivity|].
  simpl in H. apply andb_true_iff in H. destruct H as [Hc Hs]. unfold plain_char in Hc.
  apply andb_true_iff in Hc. destruct Hc as [Hc H44]. apply andb_true_iff in Hc. destruct Hc as [_ H34].
  apply negb_true_iff in H34, H44. simpl. rewrite H34, H44. simpl. apply IH. exact Hs.
Qed.
Lemma val_ok_plain : forall s, plain s = true -> val_ok s.
Proof. intros s H. split; [apply trim_no_ws, plain_no_ws, H | apply scan_plain, H]. Qed.

(* a double-quoted string without a quote inside *)
Definition no_quote (s : str) : bool := forallb (fun c => negb (c =? 34)) s.
Lemma scan_no_quote_true : forall s, no_quote s = true -> scan true s = Some true.
Proof.
  induction s as [|c s IH]; intros H; [reflexivity|].
  simpl in H. apply andb_true_iff in H. destruct H as [Hc Hs]. apply negb_true_iff in Hc.
  simpl. rewrite Hc. rewrite andb_false_r. apply IH. exact Hs.
Qed.
Lemma val_ok_quoted : forall s, no_quote s = true -> val_ok (34 :: s ++ [34]).
Proof.
  intros s H. split.
  - apply trim_edges; [reflexivity|].
    change (34 :: s ++ [34]) with ((34 :: s) ++ [34]). rewrite rev_app_distr. reflexivity.
  - simpl. rewrite scan_app, (scan_no_quote_true _ H). reflexivity.
Qed.
Lemma no_quote_filter : forall s, no_quote (filter (fun c => negb (c =? 34)) s) = true.
Proof.
  intros s. unfold no_quote. rewrite forallb_forall. intros c Hc. apply filter_In in Hc. tauto.
Qed.
Lemma val_ok_quote : forall s, val_ok (quote s).
Proof. intros s. unfold quote. apply val_ok_quoted, no_quote_filter. Qed.

Lemma digit_plain : forall c, is_digit c = true -> plain_char c = true.
Proof.
  intros c H. unfold is_digit in H. apply andb_true_iff in H. destruct H as [H1 H2].
  apply N.leb_le in H1, H2. unfold plain_char.
  assert (Hw : is_ws c = false).
  { unfold is_ws. repeat match goal with
      | |- context [?a <=? ?b] => destruct (N.leb_spec a b); try lia
      | |- context [?a =? ?b] => destruct (N.eqb_spec a b); try lia
      end; reflexivity. }
  rewrite Hw. destruct (N.eqb_spec c 34); [lia|]. destruct (N.eqb_spec c 44); [lia|]. reflexivity.
Qed.
Lemma digits_plain : forall s, forallb is_digit s = true -> plain s = true.
Proof.
  intros s H. unfold plain. rewrite forallb_forall in *. intros c Hc. apply digit_plain, H, Hc.
Qed.
Lemma print_uint_plain : forall n, plain (print_uint n) = true.
Proof. intros. apply digits_plain, print_uint_digits. Qed.
Lemma plain_app : forall a b, plain (a ++ b) = plain a && plain b.
Proof. intros. unfold plain. apply forallb_app. Qed.

Definition table_plain (tbl : list str) : bool := forallb plain tbl.
Lemma enum_print_plain : forall tbl i, table_plain tbl = true -> plain (enum_print tbl i) = true.
Proof.
  intros tbl i H. unfold enum_print. unfold table_plain in H. rewrite forallb_forall in H.
  destruct (nth_in_or_default (N.to_nat i) tbl []) as [Hin | Hd]; [apply H, Hin | rewrite Hd; reflexivity].
Qed.
Lemma enum_tables_plain :
  table_plain enum_EncryptionMethod = true /\ table_plain enum_MediaType = true
  /\ table_plain enum_HdcpLevel = true /\ table_plain enum_InStreamId = true.
Proof. vm_compute. repeat split. Qed.

Lemma hex_digit_plain : forall u v, v < 16 -> plain_char (hex_digit u v) = true.
Proof.
  intros u v H.
  assert (E : forallb (fun v => plain_char (hex_digit true v) && plain_char (hex_digit false v))
                      (map N.of_nat (seq 0 16)) = true) by (vm_compute; reflexivity).
  rewrite forallb_forall in E. specialize (E v).
  assert (Hin : In v (map N.of_nat (seq 0 16))).
  { apply in_map_iff. exists (N.to_nat v). split; [apply N2Nat.id|]. apply in_seq. lia. }
  specialize (E Hin). apply andb_true_iff in E. destruct u; tauto.
Qed.
Lemma hex_encode_plain : forall u bs, forallb (fun b => b <? 256) bs = true -> plain (hex_encode u bs) = true.
Proof.
  induction bs as [|b bs IH]; intros H; [reflexivity|].
  simpl in H. apply andb_true_iff in H. destruct H as [Hb Hbs]. apply N.ltb_lt in Hb.
  cbn [hex_encode plain forallb]. rewrite !hex_digit_plain.
  - simpl. apply IH, Hbs.
  - apply N.mod_lt. lia.
  - apply N.div_lt_upper_bound; lia.
Qed.

(* ---------- the tokenizer on printed lists ---------- *)
Definition pe (p : kv) : entry :=
  {| e_p1 := []; e_k := fst p; e_p2 := []; e_p3 := []; e_v := snd p; e_p4 := [] |}.
Lemma key_ok_facts : forall k, key_ok k = true -> k <> [] /\ trim k = k /\ no_eq k = true.
Proof.
  intros k H. unfold key_ok in H. apply andb_true_iff in H. destruct H as [Hn Ha].
  split; [destruct k; [discriminate | discriminate]|].
  split.
  - apply trim_no_ws. rewrite forallb_forall in *. intros c Hc. specialize (Ha c Hc).
    apply andb_true_iff in Ha. destruct Ha as [Ha _]. unfold plain_char in Ha.
    apply andb_true_iff in Ha. destruct Ha as [Ha _]. apply andb_true_iff in Ha. tauto.
  - unfold no_eq. rewrite forallb_forall in *. intros c Hc. specialize (Ha c Hc).
    apply andb_true_iff in Ha. tauto.
Qed.
Lemma pe_ok : forall p, kv_ok p -> entry_ok (pe p).
Proof.
  intros [k v] [Hk [Ht Hs]]. destruct (key_ok_facts k Hk) as [H1 [H2 H3]].
  unfold entry_ok, pe. cbn [e_p1 e_p2 e_p3 e_p4 e_k e_v fst snd]. repeat split; assumption.
Qed.
Lemma render_attrs_pe : forall l, render_attrs (map pe l) = render_kvs l.
Proof.
  induction l as [|p l IH]; [reflexivity|].
  destruct l as [|p2 l'].
  - simpl. unfold render_entry, render_kv, pe. simpl. rewrite !app_nil_r. reflexivity.
  - change (render_attrs (map pe (p :: p2 :: l'))) with (render_entry (pe p) ++ 44 :: render_attrs (map pe (p2 :: l'))).
    rewrite IH. unfold render_kvs. cbn [render_tail flat_map].
    unfold render_entry, render_kv, render_tail, pe. simpl. rewrite !app_nil_r, <- !app_assoc. reflexivity.
Qed.
Theorem attr_pairs_printed : forall l, Forall kv_ok l -> attr_pairs (render_kvs l) = l.
Proof.
  intros l H. rewrite <- render_attrs_pe. rewrite tokenizer_inverts_render.
  - rewrite map_map. unfold pe. simpl. rewrite <- (map_id l) at 2. apply map_ext. intros [k v]. reflexivity.
  - apply Forall_forall. intros e He. apply in_map_iff in He. destruct He as [p [<- Hp]].
    apply pe_ok. rewrite Forall_forall in H. apply H, Hp.
Qed.

(* ---------- the `tag` helper on a printed line ---------- *)
Lemma tag_printed : forall pfx rest, good_line (pfx ++ rest) = true -> tag (pfx ++ rest) pfx = Ok rest.
Proof.
  intros pfx rest H. unfold tag. rewrite (good_line_trim _ H), strip_prefix_app. reflexivity.
Qed.

Lemma fold_res_app : forall A B (f : A -> B -> res A) l1 l2 a,
  fold_res f (l1 ++ l2) a = let! a1 := fold_res f l1 a in fold_res f l2 a1.
Proof.
  induction l1 as [|x l1 IH]; intros l2 a; [reflexivity|].
  simpl. destruct (f a x); simpl; [apply IH | reflexivity | reflexivity].
Qed.

Lemma clean_unquote_quote : forall s, clean_quoted s = true -> unquote (quote s) = s.
Proof. exact unquote_quote. Qed.
