(* FloatText.v — the text layer of the float round trip: the plain-decimal text the writer produces for digits D*10^t
   (fmt_plain: trailing zeros stripped, "DDD000", "DD.DDD" or "0.000DDD", optional '-') is read by the decimal reader
   (parse_dec) as a decimal that rounds to the same value. *)
From hls Require Import Base Float Types.
From hls.Proofs Require Import FloatRound DurationText.
From Coq Require Import Lia ZifyN ZifyBool.
Local Open Scope Z_scope.

(* ---------- digit lists ---------- *)
Fixpoint lval (l : str) : Z := match l with [] => 0 | c :: r => dval c + 10 * lval r end.
Lemma zval_snoc : forall l c acc, zval (l ++ [c]) acc = zval l acc * 10 + dval c.
Proof. induction l as [|x l IH]; intros; cbn [app zval]; auto. Qed.
Lemma zval_rev : forall l, zval (rev l) 0 = lval l.
Proof. induction l as [|c l IH]; [reflexivity|]. cbn [rev lval]. rewrite zval_snoc, IH. lia. Qed.
Lemma forallb_app_digit : forall a b, forallb is_digit (a ++ b) = forallb is_digit a && forallb is_digit b.
Proof. intros. apply forallb_app. Qed.
Lemma forallb_rev_digit : forall l, forallb is_digit l = true -> forallb is_digit (rev l) = true.
Proof.
  intros l H. rewrite forallb_forall in *. intros x Hx. apply H. apply in_rev. exact Hx.
Qed.
Lemma dval_digit : forall v, 0 <= v < 10 -> is_digit (Z.to_N (v + 48)) = true /\ dval (Z.to_N (v + 48)) = v.
Proof. intros v H. unfold is_digit, dval. split; lia. Qed.

Lemma digits_rev_spec : forall fuel v, 0 <= v < 2 ^ Z.of_nat fuel ->
  forallb is_digit (digits_rev fuel v) = true /\ lval (digits_rev fuel v) = v.
Proof.
  induction fuel as [|f IH]; intros v H.
  - change (2 ^ Z.of_nat 0) with 1 in H. cbn. split; [reflexivity | lia].
  - cbn [digits_rev]. destruct (v <? 10) eqn:E.
    + apply Z.ltb_lt in E. destruct (dval_digit v ltac:(lia)) as [A B]. cbn [forallb lval]. rewrite A, B. split; [reflexivity | lia].
    + apply Z.ltb_ge in E.
      pose proof (Z.div_mod v 10 ltac:(lia)) as DM. pose proof (Z.mod_pos_bound v 10 ltac:(lia)) as MB.
      destruct (dval_digit (v mod 10) MB) as [A B].
      assert (R : 0 <= v / 10 < 2 ^ Z.of_nat f).
      { rewrite Nat2Z.inj_succ, Z.pow_succ_r in H by lia. split; [apply Z.div_pos; lia|]. apply Z.div_lt_upper_bound; lia. }
      destruct (IH (v / 10) R) as [A' B']. cbn [forallb lval]. rewrite A, B, A', B'. split; [reflexivity | lia].
Qed.
Lemma digits_rev_nonempty : forall fuel v, digits_rev (S fuel) v <> [].
Proof. intros. cbn [digits_rev]. destruct (v <? 10); discriminate. Qed.

Lemma digits_spec : forall v, 0 < v -> forallb is_digit (digits v) = true /\ zval (digits v) 0 = v /\ digits v <> [].
Proof.
  intros v Hv. unfold digits.
  assert (R : 0 <= v < 2 ^ Z.of_nat (S (Z.to_nat (Z.log2 v)))).
  { rewrite Nat2Z.inj_succ, Z2Nat.id by apply Z.log2_nonneg. destruct (Z.log2_spec v Hv). lia. }
  destruct (digits_rev_spec _ v R) as [A B]. split; [apply forallb_rev_digit; exact A|]. split; [rewrite zval_rev; exact B|].
  intros E. apply (digits_rev_nonempty (Z.to_nat (Z.log2 v)) v).
  apply (f_equal (@rev char)) in E. rewrite rev_involutive in E. exact E.
Qed.

Lemma zeros_digits : forall n, forallb is_digit (zeros n) = true.
Proof. induction n; cbn; auto. Qed.
Lemma zeros_length : forall n, List.length (zeros n) = n.
Proof. induction n; cbn; auto. Qed.
Lemma zval_zeros : forall n acc, zval (zeros n) acc = acc * 10 ^ Z.of_nat n.
Proof.
  induction n as [|n IH]; intros acc.
  - cbn. lia.
  - cbn [zeros zval]. rewrite IH. change (dval 48%N) with 0. rewrite Nat2Z.inj_succ, Z.pow_succ_r by lia. ring.
Qed.
Lemma zval_shift : forall b acc, zval b acc = acc * 10 ^ Z.of_nat (List.length b) + zval b 0.
Proof.
  induction b as [|c b IH]; intros acc.
  - cbn. lia.
  - cbn [zval List.length]. rewrite IH. rewrite (IH (0 * 10 + dval c)). rewrite Nat2Z.inj_succ, Z.pow_succ_r by lia. ring.
Qed.

(* ---------- parse_dec_body on digit texts, any sign ---------- *)
Lemma body_int : forall neg c a, forallb is_digit (c :: a) = true ->
  parse_dec_body neg (c :: a) = Some (DNum neg (zval (c :: a) 0) 0).
Proof.
  intros neg c a Ha. unfold parse_dec_body.
  assert (Hc : is_digit c = true) by (cbn [forallb] in Ha; apply andb_true_iff in Ha; tauto).
  destruct (eq_ci_digit c a Hc) as [E1 [E2 E3]]. rewrite E1, E2, E3. cbn [orb].
  rewrite <- (app_nil_r (c :: a)) at 1. rewrite (take_digits_app (c :: a) [] 0 0 Ha) by exact I.
  cbv beta iota.
  replace (0 + Z.of_nat (List.length (c :: a)) + 0 =? 0) with false by (symmetry; apply Z.eqb_neq; cbn [List.length]; lia).
  reflexivity.
Qed.
Lemma body_plain : forall neg c a b, forallb is_digit (c :: a) = true -> forallb is_digit b = true ->
  parse_dec_body neg ((c :: a) ++ 46%N :: b) = Some (DNum neg (zval ((c :: a) ++ b) 0) (- Z.of_nat (List.length b))).
Proof.
  intros neg c a b Ha Hb.
  assert (Hc : is_digit c = true) by (cbn [forallb] in Ha; apply andb_true_iff in Ha; tauto).
  change ((c :: a) ++ 46%N :: b) with (c :: (a ++ 46%N :: b)). unfold parse_dec_body.
  destruct (eq_ci_digit c (a ++ 46%N :: b) Hc) as [E1 [E2 E3]]. rewrite E1, E2, E3. cbn [orb].
  change (c :: (a ++ 46%N :: b)) with ((c :: a) ++ 46%N :: b).
  rewrite (take_digits_app (c :: a) (46%N :: b) 0 0 Ha) by reflexivity.
  cbv beta iota.
  rewrite <- (app_nil_r b) at 1. rewrite (take_digits_app b [] _ 0 Hb) by exact I.
  replace (0 + Z.of_nat (List.length (c :: a)) + (0 + Z.of_nat (List.length b)) =? 0) with false
    by (symmetry; apply Z.eqb_neq; cbn [List.length]; lia).
  rewrite zval_app. replace (0 + Z.of_nat (List.length b)) with (Z.of_nat (List.length b)) by lia. reflexivity.
Qed.
Lemma parse_dec_signed : forall (neg : bool) c (r : str), is_digit c = true ->
  parse_dec ((if neg then [45%N] else @nil N) ++ c :: r) = parse_dec_body neg (c :: r).
Proof.
  intros neg c r Hc. rewrite parse_dec_eq. destruct neg; cbn [app].
  - reflexivity.
  - rewrite sign_split_digit by assumption. reflexivity.
Qed.

(* ---------- the three layouts of fmt_plain ---------- *)
Definition body_of (D t : Z) : str :=
  let ds := digits D in let k := Z.of_nat (List.length ds) in
  if 0 <=? t then ds ++ zeros (Z.to_nat t)
  else if (- t) <? k then firstn (Z.to_nat (k + t)) ds ++ [46%N] ++ skipn (Z.to_nat (k + t)) ds
  else [48;46]%N ++ zeros (Z.to_nat (- t - k)) ++ ds.
Lemma fmt_plain_eq : forall neg D t, fmt_plain neg D t =
  let '(D1, t1) := strip_tz D t 400 in (if neg then [45%N] else []) ++ body_of D1 t1.
Proof. reflexivity. Qed.

Lemma forallb_firstn_digit : forall n (l : str), forallb is_digit l = true -> forallb is_digit (firstn n l) = true.
Proof.
  intros n l H. rewrite forallb_forall in *. intros x Hx. apply H. rewrite <- (firstn_skipn n l). apply in_or_app. left. exact Hx.
Qed.
Lemma forallb_skipn_digit : forall n (l : str), forallb is_digit l = true -> forallb is_digit (skipn n l) = true.
Proof.
  intros n l H. rewrite forallb_forall in *. intros x Hx. apply H. rewrite <- (firstn_skipn n l). apply in_or_app. right. exact Hx.
Qed.

(* the decimal read from the body: D*10^t itself, or its integer expansion when t >= 0 *)
Lemma body_parses : forall neg D t, 0 < D ->
  exists c r, body_of D t = c :: r /\ is_digit c = true /\
    parse_dec_body neg (c :: r) = Some (if 0 <=? t then DNum neg (D * 10 ^ t) 0 else DNum neg D t).
Proof.
  intros neg D t HD. destruct (digits_spec D HD) as [Hd [Hv Hne]]. unfold body_of. cbv zeta.
  remember (digits D) as ds eqn:Eds0. clear Eds0.
  destruct ds as [|c0 ds0]; [contradiction|].
  assert (Hc0 : is_digit c0 = true) by (cbn [forallb] in Hd; apply andb_true_iff in Hd; tauto).
  set (ds := c0 :: ds0) in *. set (k := Z.of_nat (List.length ds)).
  assert (Hk : 1 <= k) by (unfold k, ds; cbn [List.length]; lia).
  destruct (0 <=? t) eqn:Et.
  - apply Z.leb_le in Et. exists c0, (ds0 ++ zeros (Z.to_nat t)). split; [reflexivity|]. split; [assumption|].
    assert (Hall : forallb is_digit (c0 :: (ds0 ++ zeros (Z.to_nat t))) = true).
    { change (c0 :: (ds0 ++ zeros (Z.to_nat t))) with (ds ++ zeros (Z.to_nat t)). rewrite forallb_app_digit, Hd, zeros_digits. reflexivity. }
    rewrite body_int by exact Hall. do 2 f_equal.
    change (c0 :: (ds0 ++ zeros (Z.to_nat t))) with (ds ++ zeros (Z.to_nat t)).
    rewrite zval_app, zval_zeros, Hv, Z2Nat.id by lia. reflexivity.
  - apply Z.leb_gt in Et. destruct (- t <? k) eqn:Ek.
    + apply Z.ltb_lt in Ek. set (j := Z.to_nat (k + t)).
      assert (Hj : (1 <= j <= List.length ds)%nat) by (unfold j; fold k; lia).
      destruct (firstn j ds) as [|c a] eqn:Ef.
      { apply (f_equal (@List.length char)) in Ef. rewrite firstn_length in Ef. cbn [List.length] in Ef. lia. }
      exists c, (a ++ [46%N] ++ skipn j ds). split; [reflexivity|].
      assert (Hf : forallb is_digit (c :: a) = true) by (rewrite <- Ef; apply forallb_firstn_digit; exact Hd).
      split; [cbn [forallb] in Hf; apply andb_true_iff in Hf; tauto|].
      change (c :: a ++ [46%N] ++ skipn j ds) with ((c :: a) ++ 46%N :: skipn j ds).
      rewrite body_plain by (try assumption; apply forallb_skipn_digit; exact Hd).
      rewrite <- Ef, firstn_skipn, Hv, skipn_length. do 2 f_equal. unfold j; fold k. lia.
    + apply Z.ltb_ge in Ek. exists 48%N, (46%N :: zeros (Z.to_nat (- t - k)) ++ ds). split; [reflexivity|]. split; [reflexivity|].
      change (48%N :: 46%N :: zeros (Z.to_nat (- t - k)) ++ ds) with ((48%N :: []) ++ 46%N :: (zeros (Z.to_nat (- t - k)) ++ ds)).
      rewrite body_plain by (try reflexivity; rewrite forallb_app_digit, zeros_digits, Hd; reflexivity).
      f_equal. f_equal.
      * cbn [app zval]. change (0 * 10 + dval 48%N) with 0. rewrite zval_app, zval_zeros. cbn [Z.mul]. exact Hv.
      * rewrite app_length, zeros_length. fold k. lia.
Qed.

(* ---------- trailing zeros, sign, and the final value ---------- *)
Definition cand_round_s (f : fmt) (neg : bool) (D t : Z) : fval :=
  if 0 <=? t then rnd_pos f neg (D * 10 ^ t) 1 else rnd_pos f neg D (10 ^ (- t)).
Definition with_sign (neg : bool) (x : fval) : fval :=
  match x with FZero _ => FZero neg | FInf _ => FInf neg | FNan => FNan | FFin _ m e => FFin neg m e end.
Lemma rnd_pos_sign : forall f neg n d, rnd_pos f neg n d = with_sign neg (rnd_pos f false n d).
Proof.
  intros. rewrite !rnd_pos_unfold. unfold finish_round. destruct (m_of f n d =? 0); [reflexivity|].
  destruct (m_of f n d =? 2 ^ prec f).
  - destruct (emax f <? e_of f n d + 1); reflexivity.
  - destruct (emax f <? e_of f n d); reflexivity.
Qed.
Lemma cand_round_sign : forall f neg D t, cand_round_s f neg D t = with_sign neg (cand_round f D t).
Proof. intros. unfold cand_round_s, cand_round. destruct (0 <=? t); apply rnd_pos_sign. Qed.

Lemma cand_round_step : forall f D t, 0 < prec f -> 0 < D -> D mod 10 = 0 -> cand_round f (D / 10) (t + 1) = cand_round f D t.
Proof.
  intros f D t Hp HD Hm. pose proof (Z.div_mod D 10 ltac:(lia)) as DM. rewrite Hm in DM.
  assert (Hq : 0 < D / 10) by lia. unfold cand_round.
  destruct (0 <=? t) eqn:Et.
  - apply Z.leb_le in Et. replace (0 <=? t + 1) with true by (symmetry; apply Z.leb_le; lia).
    assert (0 < 10 ^ t) by (apply Z.pow_pos_nonneg; lia).
    rewrite (Z.pow_add_r 10 t 1) by lia. change (10 ^ 1) with 10.
    apply rnd_pos_ratio; try lia; try nia.
  - apply Z.leb_gt in Et. assert (0 < 10 ^ (- t)) by (apply Z.pow_pos_nonneg; lia).
    destruct (0 <=? t + 1) eqn:Et1.
    + apply Z.leb_le in Et1. assert (t = -1) by lia. subst t. change (-1 + 1) with 0. change (10 ^ 0) with 1. change (10 ^ (- -1)) with 10.
      apply rnd_pos_ratio; lia.
    + apply Z.leb_gt in Et1. assert (0 < 10 ^ (- (t + 1))) by (apply Z.pow_pos_nonneg; lia).
      assert (E10 : 10 ^ (- t) = 10 * 10 ^ (- (t + 1))).
      { replace (- t) with (1 + - (t + 1)) by lia. rewrite Z.pow_add_r by lia. reflexivity. }
      apply rnd_pos_ratio; try lia; rewrite E10; nia.
Qed.
Lemma strip_tz_round : forall fuel f D t, 0 < prec f -> 0 < D ->
  0 < fst (strip_tz D t fuel) /\ cand_round f (fst (strip_tz D t fuel)) (snd (strip_tz D t fuel)) = cand_round f D t.
Proof.
  induction fuel as [|fu IH]; intros f D t Hp HD; [cbn; auto|].
  cbn [strip_tz]. destruct ((D mod 10 =? 0) && negb (D =? 0)) eqn:E; [|cbn; auto].
  apply andb_true_iff in E. destruct E as [E _]. apply Z.eqb_eq in E.
  pose proof (Z.div_mod D 10 ltac:(lia)) as DM. rewrite E in DM.
  destruct (IH f (D / 10) (t + 1) Hp ltac:(lia)) as [A B]. split; [exact A|]. rewrite B. apply cand_round_step; assumption.
Qed.

Definition guard_ok (D t : Z) : bool := negb (400 <? ndigits D + t) && negb (ndigits D + t <? -400).
Lemma dec_to_f_guarded : forall f neg D t, 0 < D -> guard_ok D t = true -> dec_to_f f (DNum neg D t) = cand_round_s f neg D t.
Proof.
  intros f neg D t HD G. unfold guard_ok in G. apply andb_true_iff in G. destruct G as [G1 G2].
  apply negb_true_iff in G1. apply negb_true_iff in G2. unfold dec_to_f, cand_round_s.
  replace (D =? 0) with false by (symmetry; apply Z.eqb_neq; lia). cbv zeta. rewrite G1, G2. reflexivity.
Qed.

(* the decimal read back *)
Definition read_dec (D t : Z) : Z * Z :=
  let '(D1, t1) := strip_tz D t 400 in if 0 <=? t1 then (D1 * 10 ^ t1, 0) else (D1, t1).

(* the text written for digits D*10^t (D > 0) is read as a decimal that, inside the reader's magnitude guard, rounds to the
   value the digits round to *)
Theorem fmt_plain_reads : forall f neg D t, 0 < prec f -> 0 < D ->
  parse_dec (fmt_plain neg D t) = Some (DNum neg (fst (read_dec D t)) (snd (read_dec D t))) /\ 0 < fst (read_dec D t) /\
    (guard_ok (fst (read_dec D t)) (snd (read_dec D t)) = true ->
     dec_to_f f (DNum neg (fst (read_dec D t)) (snd (read_dec D t))) = with_sign neg (cand_round f D t)).
Proof.
  intros f neg D t Hp HD. rewrite fmt_plain_eq. unfold read_dec.
  destruct (strip_tz_round 400 f D t Hp HD) as [P1 R1].
  destruct (strip_tz D t 400) as [D1 t1]. cbn [fst snd] in P1, R1.
  destruct (body_parses neg D1 t1 P1) as [c [r [Eb [Hc Hp']]]]. rewrite Eb.
  rewrite parse_dec_signed by assumption. rewrite Hp'.
  destruct (0 <=? t1) eqn:Et; cbn [fst snd].
  - apply Z.leb_le in Et. assert (0 < 10 ^ t1) by (apply Z.pow_pos_nonneg; lia).
    split; [reflexivity|]. split; [nia|]. intros G.
    rewrite dec_to_f_guarded by (try assumption; nia). rewrite cand_round_sign. f_equal. rewrite <- R1.
    unfold cand_round. replace (0 <=? t1) with true by (symmetry; apply Z.leb_le; lia). change (0 <=? 0) with true. cbv iota.
    change (10 ^ 0) with 1. rewrite Z.mul_1_r. reflexivity.
  - split; [reflexivity|]. split; [assumption|]. intros G.
    rewrite dec_to_f_guarded by assumption. rewrite cand_round_sign, R1. reflexivity.
Qed.

Lemma shortest_pos : forall fuel f x n d lg k D t, 0 < n -> 0 < d -> shortest fuel f x n d lg k = (D, t) -> D <> 0 -> 0 < D.
Proof.
  induction fuel as [|fu IH]; intros f x n d lg k D t Hn Hd H HD.
  - cbn in H. inversion H. subst. contradiction.
  - cbn [shortest] in H. cbv zeta in H. set (t0 := lg - (k - 1)) in *.
    set (D0 := if 0 <=? t0 then n / (d * 10 ^ t0) else n * 10 ^ (- t0) / d) in *.
    assert (C : forall Dx, cand_ok f x Dx t0 = true -> 0 < Dx).
    { intros Dx Hx. unfold cand_ok in Hx. destruct (Dx <=? 0) eqn:E; [discriminate|]. apply Z.leb_gt in E. exact E. }
    destruct (if 0 <=? t0 then D0 * 10 ^ t0 * d =? n else D0 * d =? n * 10 ^ (- t0)) eqn:Ex.
    + inversion H. subst D t. destruct (0 <=? t0) eqn:Et.
      * apply Z.leb_le in Et. apply Z.eqb_eq in Ex. assert (0 < 10 ^ t0) by (apply Z.pow_pos_nonneg; lia). nia.
      * apply Z.leb_gt in Et. apply Z.eqb_eq in Ex. assert (0 < 10 ^ (- t0)) by (apply Z.pow_pos_nonneg; lia). nia.
    + destruct (cand_ok f x D0 t0) eqn:Lo; destruct (cand_ok f x (D0 + 1) t0) eqn:Hi.
      * destruct (closer_low n d D0 t0); inversion H; subst D t; auto.
      * inversion H; subst D t; auto.
      * inversion H; subst D t; auto.
      * apply (IH f x n d lg (k + 1) D t Hn Hd H HD).
Qed.

(* a canonical value of a format, written by the shortest-digits writer and read again: the same value, sign included,
   whenever the digit search returned digits and the decimal lies inside the reader's magnitude guard *)
Theorem print_parse_float : forall f neg m e, 0 < prec f -> canonical f m e ->
  fst (shortest 20 f (FFin false m e) (fst (rat_of m e)) (snd (rat_of m e)) (flog10 (fst (rat_of m e)) (snd (rat_of m e))) 1) <> 0 ->
  exists D' t', parse_dec (print_shortest f (FFin neg m e)) = Some (DNum neg D' t') /\
    (guard_ok D' t' = true -> dec_to_f f (DNum neg D' t') = FFin neg m e).
Proof.
  intros f neg m e Hp Hc HD. unfold print_shortest.
  destruct (rat_of_pos m e ltac:(destruct Hc as [[? ?] _]; assumption)) as [Pn Pd].
  rewrite (surjective_pairing (rat_of m e)).
  set (n := fst (rat_of m e)) in *. set (d := snd (rat_of m e)) in *.
  destruct (shortest 20 f (FFin false m e) n d (flog10 n d) 1) as [D t] eqn:Es. cbn [fst] in HD.
  pose proof (shortest_pos _ _ _ _ _ _ _ _ _ Pn Pd Es HD) as PD.
  pose proof (shortest_rounds_back 20 f m e (flog10 n d) 1 D t Hp Hc Es HD) as RB.
  destruct (fmt_plain_reads f neg D t Hp PD) as [A [_ B]].
  exists (fst (read_dec D t)), (snd (read_dec D t)). split; [exact A|]. intros G. rewrite (B G), RB. reflexivity.
Qed.
