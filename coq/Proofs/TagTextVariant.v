(* TagTextVariant.v — StreamData, EXT-X-STREAM-INF (+ URI line) and EXT-X-I-FRAME-STREAM-INF
   written and read back. *)
From hls Require Import Base Float Lex Kinds Types Tags Line Keys Media Master.
From hls.Generated Require Import Tables.
From hls.Proofs Require Import EqFacts C16 C12 Lexical Values TextLines AttrText TagText.
From Coq Require Import Lia ZifyN ZifyNat.
Open Scope N_scope.

(* ================= StreamData ================= *)
Definition wf_codecs (c : list str) : bool :=
  negb (is_nil c) && forallb (fun s => clean_quoted s && no_char 44 s) c.
Definition wf_sd (d : StreamData) : bool :=
  (sd_bandwidth d <? two64)
  && match sd_avg d with Some v => v <? two64 | None => true end
  && match sd_codecs d with Some c => wf_codecs c | None => true end
  && match sd_resolution d with Some r => (fst r <? two64) && (snd r <? two64) | None => true end
  && match sd_hdcp d with Some h => h <? 2 | None => true end
  && oclean (sd_video d).
Definition sd_kvs (d : StreamData) : list kv :=
  [(s_BANDWIDTH, print_uint (sd_bandwidth d))]
  ++ okv (sd_avg d) (fun v => (s_AVERAGE_BANDWIDTH, print_uint v))
  ++ okv (sd_codecs d) (fun c => (s_CODECS, quote (print_codecs c)))
  ++ okv (sd_resolution d) (fun r => (s_RESOLUTION, print_resolution r))
  ++ okv (sd_hdcp d) (fun h => (s_HDCP_LEVEL, enum_print enum_HdcpLevel h))
  ++ okv (sd_video d) (fun v => (s_VIDEO, quote v)).
Lemma print_sd_kvs : forall d t, print_stream_data d ++ render_tail t = render_kvs (sd_kvs d ++ t).
Proof.
  intros d t. unfold print_stream_data, sd_kvs, render_kvs. cbn [app].
  rewrite render_kv_app.
  repeat (rewrite render_tail_app || rewrite render_tail_cons).
  rewrite !render_tail_okv. rewrite <- !app_assoc. reflexivity.
Qed.

Definition sa (bw avg : option N) (co : option (list str)) (re : option (N * N)) (hd : option N) (vi : option str) : sd_acc :=
  {| sa_bw := bw; sa_avg := avg; sa_codecs := co; sa_res := re; sa_hdcp := hd; sa_video := vi |}.
Ltac sd_step :=
  unfold sd_attr;
  cbn [str_eqb s_BANDWIDTH s_AVERAGE_BANDWIDTH s_CODECS s_RESOLUTION s_HDCP_LEVEL s_VIDEO N.eqb Pos.eqb andb];
  cbn [sa sa_bw sa_avg sa_codecs sa_res sa_hdcp sa_video].
Lemma join_clean : forall c l, is_bad_quoted c = false -> forallb clean_quoted l = true ->
  clean_quoted (join_with [c] l) = true.
Proof.
  intros c. induction l as [|x l IH]; intros Hc H; [reflexivity|].
  simpl in H. apply andb_true_iff in H. destruct H as [Hx Hl]. destruct l as [|y l']; [exact Hx|].
  change (join_with [c] (x :: y :: l')) with (x ++ [c] ++ join_with [c] (y :: l')).
  unfold clean_quoted in *. rewrite !forallb_app, Hx, (IH Hc Hl). simpl. rewrite Hc. reflexivity.
Qed.
Lemma codecs_clean : forall c, wf_codecs c = true -> clean_quoted (print_codecs c) = true.
Proof.
  intros c H. unfold wf_codecs in H. apply andb_true_iff in H. destruct H as [_ H].
  unfold print_codecs. apply join_clean; [reflexivity|]. rewrite forallb_forall in *. intros s Hs.
  specialize (H s Hs). apply andb_true_iff in H. tauto.
Qed.
Lemma codecs_text : forall c, wf_codecs c = true -> parse_codecs (unquote (quote (print_codecs c))) = c.
Proof.
  intros c H. rewrite (unquote_quote _ (codecs_clean c H)). unfold wf_codecs in H.
  apply andb_true_iff in H. destruct H as [Hn H]. unfold parse_codecs, print_codecs. apply split_join.
  - destruct c; [discriminate | discriminate].
  - rewrite forallb_forall in *. intros s Hs. specialize (H s Hs). apply andb_true_iff in H. tauto.
Qed.

Section SdChunks.
Variables (bw avg : option N) (co : option (list str)) (re : option (N * N)) (hd : option N) (vi : option str).
Lemma sdc_bw : forall n, n < two64 ->
  fold_res sd_attr [(s_BANDWIDTH, print_uint n)] (sa None avg co re hd vi) = Ok (sa (Some n) avg co re hd vi).
Proof.
  intros n H. cbn [fold_res]. sd_step. unfold parse_u64. rewrite (parse_print_uint 64 n) by (unfold two64 in H; lia). reflexivity.
Qed.
Lemma sdc_avg : forall o, match o with Some v => v <? two64 | None => true end = true ->
  fold_res sd_attr (okv o (fun v => (s_AVERAGE_BANDWIDTH, print_uint v))) (sa bw None co re hd vi) = Ok (sa bw o co re hd vi).
Proof.
  intros [n|] H; cbn [okv fold_res]; [|reflexivity]. apply N.ltb_lt in H. sd_step.
  unfold parse_u64. rewrite (parse_print_uint 64 n) by (unfold two64 in H; lia). reflexivity.
Qed.
Lemma sdc_codecs : forall o, match o with Some c => wf_codecs c | None => true end = true ->
  fold_res sd_attr (okv o (fun c => (s_CODECS, quote (print_codecs c)))) (sa bw avg None re hd vi) = Ok (sa bw avg o re hd vi).
Proof. intros [c|] H; cbn [okv fold_res]; [|reflexivity]. sd_step. rewrite (codecs_text c H). reflexivity. Qed.
Lemma sdc_res : forall o, match o with Some r => (fst r <? two64) && (snd r <? two64) | None => true end = true ->
  fold_res sd_attr (okv o (fun r => (s_RESOLUTION, print_resolution r))) (sa bw avg co None hd vi) = Ok (sa bw avg co o hd vi).
Proof.
  intros [[w h]|] H; cbn [okv fold_res]; [|reflexivity]. cbn [fst snd] in H. apply andb_true_iff in H.
  destruct H as [Hw Hh]. apply N.ltb_lt in Hw, Hh. sd_step. rewrite (resolution_roundtrip w h Hw Hh). reflexivity.
Qed.
Lemma sdc_hdcp : forall o, match o with Some h => h <? 2 | None => true end = true ->
  fold_res sd_attr (okv o (fun h => (s_HDCP_LEVEL, enum_print enum_HdcpLevel h))) (sa bw avg co re None vi) = Ok (sa bw avg co re o vi).
Proof.
  intros [h|] H; cbn [okv fold_res]; [|reflexivity]. apply N.ltb_lt in H. sd_step.
  rewrite (enum_roundtrip_N enum_HdcpLevel h) by (try apply enum_tables_ok; exact H). reflexivity.
Qed.
Lemma sdc_video : forall o, oclean o = true ->
  fold_res sd_attr (okv o (fun v => (s_VIDEO, quote v))) (sa bw avg co re hd None) = Ok (sa bw avg co re hd o).
Proof.
  intros [v|] H; cbn [okv fold_res]; [|reflexivity]. sd_step. cbn [oclean] in H. rewrite (unquote_quote _ H). reflexivity.
Qed.
End SdChunks.

Lemma sd_fold : forall d, wf_sd d = true ->
  fold_res sd_attr (sd_kvs d) (sa None None None None None None)
  = Ok (sa (Some (sd_bandwidth d)) (sd_avg d) (sd_codecs d) (sd_resolution d) (sd_hdcp d) (sd_video d)).
Proof.
  intros d H. unfold wf_sd in H.
  repeat (apply andb_true_iff in H; let H2 := fresh "W" in destruct H as [H H2]).
  apply N.ltb_lt in H. unfold sd_kvs.
  rewrite fold_res_app, (sdc_bw _ _ _ _ _ _ H). cbn [bind].
  rewrite fold_res_app, sdc_avg by assumption. cbn [bind].
  rewrite fold_res_app, sdc_codecs by assumption. cbn [bind].
  rewrite fold_res_app, sdc_res by assumption. cbn [bind].
  rewrite fold_res_app, sdc_hdcp by assumption. cbn [bind].
  rewrite sdc_video by assumption. reflexivity.
Qed.

Lemma fold_ignored : forall A (f : A -> kv -> res A) l a,
  (forall p, In p l -> f a p = Ok a) -> fold_res f l a = Ok a.
Proof.
  induction l as [|p l IH]; intros a H; [reflexivity|].
  cbn [fold_res]. rewrite (H p (or_introl eq_refl)). cbn [bind]. apply IH. intros q Hq. apply H. right. exact Hq.
Qed.

Definition sd_keys : list str := [s_BANDWIDTH; s_AVERAGE_BANDWIDTH; s_CODECS; s_RESOLUTION; s_HDCP_LEVEL; s_VIDEO].
Definition si_keys : list str := [s_FRAME_RATE; s_AUDIO; s_SUBTITLES; s_CLOSED_CAPTIONS; s_URI].
Lemma sd_kvs_keys : forall d p, In p (sd_kvs d) -> In (fst p) sd_keys.
Proof.
  intros d p H. unfold sd_kvs in H. repeat (apply in_app_or in H; destruct H as [H|H]);
    repeat match goal with
    | H : In _ (okv ?o _) |- _ => destruct o; cbn [okv] in H
    | H : In _ [_] |- _ => destruct H as [<-|[]]
    | H : In _ [] |- _ => destruct H
    end; cbn [fst sd_keys In]; tauto.
Qed.
Lemma si_ignores_sd : forall a k v, In k sd_keys -> si_attr a (k, v) = Ok a.
Proof. intros a k v H. cbn [sd_keys In] in H. repeat (destruct H as [<-|H]; [reflexivity|]). destruct H. Qed.
Lemma sd_ignores_si : forall a k v, In k si_keys -> sd_attr a (k, v) = Ok a.
Proof. intros a k v H. cbn [si_keys In] in H. repeat (destruct H as [<-|H]; [reflexivity|]). destruct H. Qed.

Lemma sd_kvs_fine : forall d, wf_sd d = true -> Forall kv_fine (sd_kvs d).
Proof.
  intros d H. unfold wf_sd in H.
  repeat (apply andb_true_iff in H; let H2 := fresh "W" in destruct H as [H H2]).
  unfold sd_kvs. repeat (apply Forall_app; split).
  - constructor; [|constructor]. apply fine_plain; [reflexivity | apply print_uint_plain | apply print_uint_nonempty].
  - destruct (sd_avg d); cbn [okv]; constructor; [|constructor].
    apply fine_plain; [reflexivity | apply print_uint_plain | apply print_uint_nonempty].
  - destruct (sd_codecs d) as [c|]; cbn [okv]; constructor; [|constructor].
    apply fine_quote; [reflexivity | apply codecs_clean; assumption].
  - destruct (sd_resolution d) as [[w h]|]; cbn [okv]; constructor; [|constructor].
    apply fine_plain; [reflexivity | |].
    + unfold print_resolution. cbn [fst snd]. change (print_uint w ++ 120 :: print_uint h) with (print_uint w ++ [120] ++ print_uint h).
      rewrite !plain_app, !print_uint_plain. reflexivity.
    + unfold print_resolution. pose proof (print_uint_nonempty w). destruct (print_uint (fst (w, h))) eqn:E; [cbn [fst] in E; congruence | discriminate].
  - destruct (sd_hdcp d) as [h|]; cbn [okv]; constructor; [|constructor]. apply N.ltb_lt in W0.
    apply fine_plain; [reflexivity | apply enum_print_plain, enum_tables_plain |].
    apply enum_print_nonempty; [apply enum_tables_nonempty | exact W0].
  - destruct (sd_video d) as [v|]; cbn [okv]; constructor; [|constructor]. apply fine_quote; [reflexivity | assumption].
Qed.

(* ================= variant streams ================= *)
Definition cc_wf (c : ClosedCaptions) : bool := match c with CcGroup s => clean_quoted s | CcNone => true end.
Definition wf_variant (v : Variant) : bool :=
  match v with
  | VIFrame u sd => clean_quoted u && wf_sd sd
  | VStreamInf u fr au su cc sd =>
      good_line u && match fr with Some x => ufloat_rt x | None => true end
      && oclean au && oclean su && match cc with Some c => cc_wf c | None => true end && wf_sd sd
  end.
Definition si_extra (fr : option fval) (au su : option str) (cc : option ClosedCaptions) : list kv :=
  okv fr (fun x => (s_FRAME_RATE, print_fixed3 x))
  ++ okv au (fun s => (s_AUDIO, quote s))
  ++ okv su (fun s => (s_SUBTITLES, quote s))
  ++ okv cc (fun c => (s_CLOSED_CAPTIONS, print_cc c)).
Definition streaminf_kvs fr au su cc sd : list kv := sd_kvs sd ++ si_extra fr au su cc.
Definition streaminf_line fr au su cc sd : str :=
  pfx_VariantStream_EXTXSTREAMINF ++ render_kvs (streaminf_kvs fr au su cc sd).
Lemma print_streaminf : forall u fr au su cc sd,
  print_variant (VStreamInf u fr au su cc sd) = streaminf_line fr au su cc sd ++ [10] ++ u.
Proof.
  intros. unfold print_variant, streaminf_line, streaminf_kvs. rewrite <- print_sd_kvs. unfold si_extra.
  rewrite !render_tail_app, !render_tail_okv. rewrite <- !app_assoc. reflexivity.
Qed.

Lemma cc_text : forall c, cc_wf c = true -> parse_cc (print_cc c) = c.
Proof.
  intros [s|] H; [|reflexivity]. cbn [print_cc cc_wf] in *. unfold parse_cc.
  destruct (val_ok_quote s) as [Ht _]. rewrite Ht.
  assert (E : str_eqb (quote s) s_NONE = false) by reflexivity. rewrite E.
  rewrite (unquote_quote _ H). reflexivity.
Qed.
Lemma cc_fine : forall c, cc_wf c = true -> kv_fine (s_CLOSED_CAPTIONS, print_cc c).
Proof.
  intros [s|] H; cbn [print_cc].
  - apply fine_quote; [reflexivity | exact H].
  - apply fine_plain; [reflexivity | reflexivity | discriminate].
Qed.

Definition sia (fr : option fval) (au su : option str) (cc : option ClosedCaptions) : si_acc :=
  {| si_fr := fr; si_audio := au; si_subs := su; si_cc := cc |}.
Ltac si_step :=
  unfold si_attr;
  cbn [str_eqb s_FRAME_RATE s_AUDIO s_SUBTITLES s_CLOSED_CAPTIONS N.eqb Pos.eqb andb];
  cbn [sia si_fr si_audio si_subs si_cc].
Lemma si_fold : forall fr au su cc,
  match fr with Some x => ufloat_rt x | None => true end = true -> oclean au = true -> oclean su = true ->
  match cc with Some c => cc_wf c | None => true end = true ->
  fold_res si_attr (si_extra fr au su cc) (sia None None None None) = Ok (sia fr au su cc).
Proof.
  intros fr au su cc Hf Ha Hs Hc. unfold si_extra.
  assert (E1 : forall a s c0, fold_res si_attr (okv fr (fun x => (s_FRAME_RATE, print_fixed3 x))) (sia None a s c0) = Ok (sia fr a s c0)).
  { intros. destruct fr as [x|]; cbn [okv fold_res]; [|reflexivity]. si_step. rewrite (ufloat_rt_parse x Hf). reflexivity. }
  assert (E2 : forall f s c0, fold_res si_attr (okv au (fun x => (s_AUDIO, quote x))) (sia f None s c0) = Ok (sia f au s c0)).
  { intros. destruct au as [x|]; cbn [okv fold_res]; [|reflexivity]. si_step. cbn [oclean] in Ha. rewrite (unquote_quote _ Ha). reflexivity. }
  assert (E3 : forall f a c0, fold_res si_attr (okv su (fun x => (s_SUBTITLES, quote x))) (sia f a None c0) = Ok (sia f a su c0)).
  { intros. destruct su as [x|]; cbn [okv fold_res]; [|reflexivity]. si_step. cbn [oclean] in Hs. rewrite (unquote_quote _ Hs). reflexivity. }
  assert (E4 : forall f a s, fold_res si_attr (okv cc (fun x => (s_CLOSED_CAPTIONS, print_cc x))) (sia f a s None) = Ok (sia f a s cc)).
  { intros. destruct cc as [x|]; cbn [okv fold_res]; [|reflexivity]. si_step. rewrite (cc_text x Hc). reflexivity. }
  rewrite fold_res_app, E1. cbn [bind]. rewrite fold_res_app, E2. cbn [bind]. rewrite fold_res_app, E3. cbn [bind]. apply E4.
Qed.
Lemma si_extra_keys : forall fr au su cc p, In p (si_extra fr au su cc) -> In (fst p) si_keys.
Proof.
  intros fr au su cc p H. unfold si_extra in H. repeat (apply in_app_or in H; destruct H as [H|H]);
    repeat match goal with
    | H : In _ (okv ?o _) |- _ => destruct o; cbn [okv] in H
    | H : In _ [_] |- _ => destruct H as [<-|[]]
    | H : In _ [] |- _ => destruct H
    end; cbn [fst si_keys In]; tauto.
Qed.
Lemma si_extra_fine : forall fr au su cc,
  match fr with Some x => ufloat_rt x | None => true end = true -> oclean au = true -> oclean su = true ->
  match cc with Some c => cc_wf c | None => true end = true -> Forall kv_fine (si_extra fr au su cc).
Proof.
  intros fr au su cc Hf Ha Hs Hc. unfold si_extra. repeat (apply Forall_app; split).
  - destruct fr as [x|]; cbn [okv]; constructor; [|constructor]. unfold ufloat_rt in Hf.
    apply andb_true_iff in Hf. destruct Hf as [Hf _]. apply andb_true_iff in Hf. destruct Hf as [Hp Hn].
    apply fine_plain; [reflexivity | exact Hp | destruct (print_fixed3 x); [discriminate | discriminate]].
  - destruct au as [x|]; cbn [okv]; constructor; [|constructor]. apply fine_quote; [reflexivity | exact Ha].
  - destruct su as [x|]; cbn [okv]; constructor; [|constructor]. apply fine_quote; [reflexivity | exact Hs].
  - destruct cc as [x|]; cbn [okv]; constructor; [|constructor]. apply cc_fine, Hc.
Qed.

Lemma sd_kvs_nonempty : forall d, sd_kvs d <> [].
Proof. intros d. unfold sd_kvs. discriminate. Qed.

Theorem streaminf_text : forall u fr au su cc sd, wf_variant (VStreamInf u fr au su cc sd) = true ->
  parse_streaminf (streaminf_line fr au su cc sd) u = Ok (VStreamInf u fr au su cc sd)
  /\ good_line (streaminf_line fr au su cc sd) = true.
Proof.
  intros u fr au su cc sd H. cbn [wf_variant] in H.
  repeat (apply andb_true_iff in H; let H2 := fresh "W" in destruct H as [H H2]).
  assert (Hf : Forall kv_fine (streaminf_kvs fr au su cc sd)).
  { unfold streaminf_kvs. apply Forall_app. split; [apply sd_kvs_fine | apply si_extra_fine]; assumption. }
  assert (Hne : streaminf_kvs fr au su cc sd <> []).
  { unfold streaminf_kvs. pose proof (sd_kvs_nonempty sd). destruct (sd_kvs sd); [congruence | discriminate]. }
  unfold streaminf_line. split; [|apply printed_line_good; try assumption; pfx_ok].
  unfold parse_streaminf.
  destruct (tag_attrs pfx_VariantStream_EXTXSTREAMINF _ ltac:(pfx_ok) ltac:(pfx_ok) Hf Hne) as [E1 E2].
  rewrite E1. cbn [bind]. unfold parse_stream_data. rewrite E2. unfold streaminf_kvs.
  change {| si_fr := None; si_audio := None; si_subs := None; si_cc := None |} with (sia None None None None).
  rewrite fold_res_app. rewrite (fold_ignored _ si_attr (sd_kvs sd)).
  2:{ intros [k v] Hp. apply si_ignores_sd. exact (sd_kvs_keys sd _ Hp). }
  cbn [bind]. rewrite si_fold by assumption. cbn [bind].
  change {| sa_bw := None; sa_avg := None; sa_codecs := None; sa_res := None; sa_hdcp := None; sa_video := None |}
    with (sa None None None None None None).
  rewrite fold_res_app, (sd_fold sd W). cbn [bind].
  rewrite (fold_ignored _ sd_attr (si_extra fr au su cc)).
  2:{ intros [k v] Hp. apply sd_ignores_si. exact (si_extra_keys _ _ _ _ _ Hp). }
  cbn [bind sa sia sa_bw sa_avg sa_codecs sa_res sa_hdcp sa_video si_fr si_audio si_subs si_cc of_opt].
  destruct sd; reflexivity.
Qed.

Definition iframe_kvs (u : str) (sd : StreamData) : list kv := (s_URI, quote u) :: sd_kvs sd.
Lemma print_iframe : forall u sd,
  print_variant (VIFrame u sd) = pfx_VariantStream_EXTXIFRAME ++ render_kvs (iframe_kvs u sd).
Proof.
  intros u sd. unfold print_variant, iframe_kvs, render_kvs.
  pose proof (print_sd_kvs sd []) as E. cbn [render_tail flat_map] in E. rewrite !app_nil_r in E.
  rewrite E. unfold sd_kvs. cbn [app]. unfold render_kvs. rewrite render_tail_cons.
  unfold render_kv. cbn [fst snd]. rewrite <- !app_assoc. reflexivity.
Qed.
Theorem iframe_text : forall u sd, wf_variant (VIFrame u sd) = true ->
  parse_iframe (print_variant (VIFrame u sd)) = Ok (VIFrame u sd)
  /\ good_line (print_variant (VIFrame u sd)) = true
  /\ tag (print_variant (VIFrame u sd)) pfx_VariantStream_EXTXIFRAME = Ok (render_kvs (iframe_kvs u sd)).
Proof.
  intros u sd H. cbn [wf_variant] in H. apply andb_true_iff in H. destruct H as [Hu Hsd].
  assert (Hf : Forall kv_fine (iframe_kvs u sd)).
  { unfold iframe_kvs. constructor; [apply fine_quote; [reflexivity | exact Hu] | apply sd_kvs_fine, Hsd]. }
  assert (Hne : iframe_kvs u sd <> []) by (unfold iframe_kvs; discriminate).
  rewrite print_iframe.
  destruct (tag_attrs pfx_VariantStream_EXTXIFRAME _ ltac:(pfx_ok) ltac:(pfx_ok) Hf Hne) as [E1 E2].
  split; [|split; [apply printed_line_good; try assumption; pfx_ok | exact E1]].
  unfold parse_iframe. rewrite E1. cbn [bind]. unfold parse_stream_data. rewrite E2.
  unfold iframe_kvs. cbn [find_uri str_eqb s_URI N.eqb Pos.eqb andb of_opt bind].
  rewrite (unquote_quote _ Hu). cbn [fold_res].
  rewrite (sd_ignores_si _ s_URI (quote u)) by (cbn [si_keys In]; tauto). cbn [bind].
  change {| sa_bw := None; sa_avg := None; sa_codecs := None; sa_res := None; sa_hdcp := None; sa_video := None |}
    with (sa None None None None None None).
  rewrite (sd_fold sd Hsd). cbn [bind sa sa_bw sa_avg sa_codecs sa_res sa_hdcp sa_video of_opt].
  destruct sd; reflexivity.
Qed.
