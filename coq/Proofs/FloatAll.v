(* FloatAll.v — the hypotheses `dur_rt` / `float_rt` of the text-level theorems hold for every duration below 2^20 s and for every
   float the reader can produce: the writer's text is attribute-safe (digits, '.', '-') and reads back as the same value. *)
From hls Require Import Base Float Lex Kinds Types Tags.
From hls.Proofs Require Import FloatRound FloatNear FloatDigits DurationText FloatText FloatGuard AttrText TagText TagTextSegment.
From Coq Require Import Lia ZifyN ZifyBool.
Local Open Scope Z_scope.

(* ---------- the characters of the written text ---------- *)
Definition fchar (c : char) : bool := is_digit c || (c =? 46)%N || (c =? 45)%N.
Lemma fchar_plain : forall c, fchar c = true -> plain_char c = true /\ (c =? 120)%N = false /\ (c =? 88)%N = false.
Proof. intros c H. unfold fchar, is_digit in H. unfold plain_char, is_ws. repeat split; lia. Qed.
Lemma digit_fchar : forall l, forallb is_digit l = true -> forallb fchar l = true.
Proof. intros l H. rewrite forallb_forall in *. intros x Hx. unfold fchar. rewrite (H x Hx). reflexivity. Qed.
Lemma body_chars : forall D t, 0 < D -> forallb fchar (body_of D t) = true.
Proof.
  intros D t HD. destruct (digits_spec D HD) as [Hd _]. unfold body_of. cbv zeta.
  destruct (0 <=? t).
  - rewrite forallb_app, (digit_fchar _ Hd), (digit_fchar _ (zeros_digits _)). reflexivity.
  - destruct (- t <? Z.of_nat (Datatypes.length (digits D))).
    + rewrite !forallb_app. rewrite (digit_fchar _ (forallb_firstn_digit _ _ Hd)), (digit_fchar _ (forallb_skipn_digit _ _ Hd)). reflexivity.
    + rewrite !forallb_app. rewrite (digit_fchar _ Hd), (digit_fchar _ (zeros_digits _)). reflexivity.
Qed.
Lemma fmt_plain_chars : forall neg D t, 0 < D -> forallb fchar (fmt_plain neg D t) = true /\ fmt_plain neg D t <> [].
Proof.
  intros neg D t HD. rewrite fmt_plain_eq. destruct (strip_tz_inv 400 D t HD) as [[A _] _]. cbv zeta in A.
  destruct (strip_tz D t 400) as [D1 t1]. cbn [fst] in A.
  destruct (body_parses false D1 t1 A) as [c [r [Eb _]]]. split.
  - rewrite forallb_app. apply andb_true_iff. split; [destruct neg; reflexivity | apply body_chars; exact A].
  - rewrite Eb. destruct neg; discriminate.
Qed.
Lemma print_shortest_chars : forall f neg m e, canonical f m e -> 2 <= prec f -> -1100 <= emin f -> emax f <= 1100 -> prec f <= 64 ->
  forall ks, 1 <= ks <= 20 -> 2 * 2 ^ prec f <= 10 ^ (ks - 1) ->
  forallb fchar (print_shortest f (FFin neg m e)) = true /\ print_shortest f (FFin neg m e) <> [].
Proof.
  intros f neg m e Hc Hp H1 H2 H3 ks Hks HK.
  assert (Hm : 0 < m) by (destruct Hc as [[? ?] _]; assumption).
  pose proof (digits_found f m e ks Hp Hc H1 H2 H3 Hks HK) as DF. cbv zeta in DF.
  unfold print_shortest. rewrite (surjective_pairing (rat_of m e)).
  set (n := fst (rat_of m e)) in *. set (d := snd (rat_of m e)) in *.
  destruct (shortest 20 f (FFin false m e) n d (flog10 n d) 1) as [D t] eqn:Es. cbn [fst] in DF.
  destruct (rat_of_pos m e Hm) as [Pn Pd]. fold n d in Pn, Pd.
  pose proof (shortest_pos _ _ _ _ _ _ _ _ _ Pn Pd Es DF) as PD.
  apply fmt_plain_chars. exact PD.
Qed.
Lemma fchar_text_plain : forall s, forallb fchar s = true -> plain s = true.
Proof. intros s H. unfold plain. rewrite forallb_forall in *. intros x Hx. apply (fchar_plain x (H x Hx)). Qed.

(* ---------- durations ---------- *)
Theorem dur_rt_small : forall ns : N, (ns < 1048576 * 1000000000)%N -> dur_rt ns = true.
Proof.
  intros ns H. unfold dur_rt. rewrite (duration_text_roundtrip ns H), N.eqb_refl.
  destruct (N.eq_dec ns 0) as [-> | NZ]; [reflexivity|].
  unfold print_duration. destruct (secs_f64_fin (Z.of_N ns) ltac:(lia)) as [M [k [E [HM Hk]]]]. rewrite E.
  assert (C : canonical b64 M (- k)).
  { unfold canonical. change (prec b64) with 53. change (emin b64) with (-1074). change (emax b64) with 971.
    change (2 ^ 53) with 9007199254740992. change (2 ^ (53 - 1)) with 4503599627370496. lia. }
  destruct (print_shortest_chars b64 false M (- k) C ltac:(cbn; lia) ltac:(cbn; lia) ltac:(cbn; lia) ltac:(cbn; lia) 18 ltac:(lia) ltac:(cbn; lia)) as [A B].
  rewrite (fchar_text_plain _ A). destruct (print_shortest b64 (FFin false M (- k))); [contradiction|reflexivity].
Qed.

(* ---------- floats ---------- *)
Lemma fval_eqb_refl : forall x, valid32 x -> fval_eqb x x = true.
Proof.
  intros [n| | |s m e] H; try contradiction; cbn.
  - destruct n; reflexivity.
  - rewrite !Z.eqb_refl. destruct s; reflexivity.
Qed.
Theorem float_rt_valid : forall x, valid32 x ->
  float_rt x = true /\ starts_with s_0x (print_f32 x) = false /\ starts_with s_0X (print_f32 x) = false.
Proof.
  intros x H. unfold float_rt. rewrite (f32_text_roundtrip x H), (fval_eqb_refl x H).
  destruct x as [n| | |neg m e]; try contradiction.
  - destruct n; repeat split; reflexivity.
  - cbn in H. unfold print_f32.
    destruct (print_shortest_chars b32 neg m e H ltac:(cbn; lia) ltac:(cbn; lia) ltac:(cbn; lia) ltac:(cbn; lia) 9 ltac:(lia) ltac:(cbn; lia)) as [A B].
    rewrite (fchar_text_plain _ A).
    destruct (print_shortest b32 (FFin neg m e)) as [|c1 [|c2 r]] eqn:Ep; [contradiction | |].
    + repeat split; unfold s_0x, s_0X; cbn [starts_with]; rewrite ?andb_false_r; reflexivity.
    + cbn [forallb] in A. apply andb_true_iff in A. destruct A as [_ A]. apply andb_true_iff in A. destruct A as [A2 _].
      destruct (fchar_plain c2 A2) as [_ [X1 X2]]. rewrite N.eqb_sym in X1. rewrite N.eqb_sym in X2.
      repeat split; unfold s_0x, s_0X; cbn [starts_with]; rewrite ?X1, ?X2, ?andb_false_r, ?andb_false_l; reflexivity.
Qed.

(* ---------- every float the reader produces is a canonical f32 ---------- *)
Lemma rnd_pos_canonical : forall f neg n d, 2 <= prec f -> 0 < n -> 0 < d -> emin f <= emax f ->
  match rnd_pos f neg n d with FFin _ m e => canonical f m e | _ => True end.
Proof.
  intros f neg n d Hp Hn Hd Hee. rewrite rnd_pos_unfold. unfold finish_round.
  set (p := prec f) in *. set (E := e_of f n d). set (M := m_of f n d).
  destruct (M =? 0) eqn:E0; [exact I|]. apply Z.eqb_neq in E0.
  pose proof (e1_spec p n d ltac:(lia) Hn Hd) as [G L]. set (e1 := e1_of p n d) in *.
  destruct (sc_qr n d E Hn Hd) as [DB [_ [R _]]].
  pose proof (rne_near (sc_q n d E) (sc_r n d E) (sc_den n d E) R) as [[Q1 Q2] _]. cbv zeta in Q1, Q2. change (rne (sc_q n d E) (sc_r n d E) (sc_den n d E)) with M in Q1, Q2.
  assert (EE : E = Z.max e1 (emin f)) by reflexivity.
  assert (QU : sc_q n d E < 2 ^ p).
  { apply (q_lt_pow n d E p Hn Hd ltac:(lia)). eapply lt2_mono; [| | |exact L]; try lia. }
  pose proof (sc_q_nonneg n d E Hn Hd) as Q0.
  assert (Pp : 2 ^ p = 2 * 2 ^ (p - 1)).
  { replace p with (1 + (p - 1)) at 1 by lia. rewrite pow2_split by lia. reflexivity. }
  pose proof (pow2_pos (p - 1) ltac:(lia)) as Ppos.
  destruct (M =? 2 ^ p) eqn:EM.
  - destruct (emax f <? E + 1) eqn:Ex; [exact I|]. apply Z.ltb_ge in Ex.
    unfold canonical. fold p. split; [lia|]. split; [lia|]. intros Hs. lia.
  - apply Z.eqb_neq in EM. destruct (emax f <? E) eqn:Ex; [exact I|]. apply Z.ltb_ge in Ex.
    unfold canonical. fold p. split; [lia|]. split; [lia|].
    intros Hs. destruct (Z.eq_dec E (emin f)) as [|NE]; [assumption|]. exfalso.
    assert (E = e1) by lia.
    assert (2 ^ (p - 1) <= sc_q n d E).
    { apply (q_ge_pow n d E (p - 1) Hn Hd ltac:(lia)). replace (p - 1 + E) with (e1 + p - 1) by lia. exact G. }
    lia.
Qed.
Lemma take_digits_nonneg : forall s acc cnt, 0 <= acc -> 0 <= fst (fst (take_digits s acc cnt)).
Proof.
  induction s as [|c s IH]; intros acc cnt H; cbn [take_digits]; [exact H|].
  destruct (is_digit c); [|exact H]. apply IH. unfold dval. lia.
Qed.
Lemma frac_nonneg : forall (s2 : str) ip, 0 <= ip ->
  0 <= fst (fst (match s2 with 46%N :: r => let '(m, fc, s3) := take_digits r ip 0 in (m, fc, s3) | _ => (ip, 0, s2) end)).
Proof.
  intros s2 ip H. destruct s2 as [|c r]; [exact H|]. destruct c as [|p]; [exact H|].
  repeat (destruct p as [p|p|]; try exact H).
  pose proof (take_digits_nonneg r ip 0 H) as T. destruct (take_digits r ip 0) as [[m fc] s3]. exact T.
Qed.
Lemma parse_dec_nonneg : forall s neg m e, parse_dec s = Some (DNum neg m e) -> 0 <= m.
Proof.
  intros s neg m e H. rewrite parse_dec_eq in H. destruct (sign_split s) as [ng s1]. unfold parse_dec_body in H.
  destruct (eq_ci s1 s_nan); [discriminate|]. destruct (eq_ci s1 s_inf || eq_ci s1 s_infinity); [discriminate|].
  pose proof (take_digits_nonneg s1 0 0 ltac:(lia)) as T1. destruct (take_digits s1 0 0) as [[ip ic] s2]. cbn [fst] in T1.
  pose proof (frac_nonneg s2 ip T1) as T2.
  destruct (match s2 with 46%N :: r => let '(m, fc, s3) := take_digits r ip 0 in (m, fc, s3) | _ => (ip, 0, s2) end) as [[m' fc] s3].
  cbn [fst] in T2. destruct (ic + fc =? 0); [discriminate|].
  destruct s3 as [|c r]; [inversion H; subst; exact T2|].
  destruct (lower c =? 101)%N; [|discriminate].
  destruct (match r with 45%N :: r' => (true, r') | 43%N :: r' => (false, r') | _ => (false, r) end) as [eneg r1].
  destruct (take_digits r1 0 0) as [[ev ec] r2]. destruct (ec =? 0); [discriminate|].
  destruct r2; [inversion H; subst; exact T2 | discriminate].
Qed.
Theorem parse_float_valid : forall s x, parse_float s = Ok x -> valid32 x.
Proof.
  intros s x H. unfold parse_float, parse_f32 in H. destruct (parse_dec s) as [dc|] eqn:Ed; [|discriminate]. cbn [bind] in H.
  destruct (f_is_finite (dec_to_f b32 dc)) eqn:F; [|discriminate]. inversion H. subst x. clear H.
  destruct dc as [|n|neg m e]; try discriminate. pose proof (parse_dec_nonneg s neg m e Ed) as M0. unfold dec_to_f in *.
  destruct (m =? 0) eqn:E0; [exact I|]. apply Z.eqb_neq in E0. cbv zeta in *.
  destruct (400 <? ndigits m + e); [discriminate|]. destruct (ndigits m + e <? -400); [exact I|].
  destruct (0 <=? e) eqn:Ee.
  - apply Z.leb_le in Ee. assert (0 < 10 ^ e) by (apply Z.pow_pos_nonneg; lia).
    pose proof (rnd_pos_canonical b32 neg (m * 10 ^ e) 1 ltac:(cbn; lia) ltac:(nia) ltac:(lia) ltac:(cbn; lia)) as C.
    destruct (rnd_pos b32 neg (m * 10 ^ e) 1); try discriminate; try exact I. exact C.
  - apply Z.leb_gt in Ee. assert (0 < 10 ^ (- e)) by (apply Z.pow_pos_nonneg; lia).
    pose proof (rnd_pos_canonical b32 neg m (10 ^ (- e)) ltac:(cbn; lia) ltac:(lia) ltac:(lia) ltac:(cbn; lia)) as C.
    destruct (rnd_pos b32 neg m (10 ^ (- e))); try discriminate; try exact I. exact C.
Qed.

(* every float the reader accepts survives the writer and the reader *)
Theorem parsed_float_roundtrip : forall s x, parse_float s = Ok x ->
  parse_float (print_f32 x) = Ok x /\ float_rt x = true
  /\ starts_with s_0x (print_f32 x) = false /\ starts_with s_0X (print_f32 x) = false.
Proof.
  intros s x H. pose proof (parse_float_valid s x H) as V. destruct (float_rt_valid x V) as [A [B C]].
  split; [apply f32_text_roundtrip; exact V|]. auto.
Qed.
