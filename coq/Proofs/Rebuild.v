(* Rebuild.v — C20: MediaPlaylistBuilder::build is idempotent on its own results: the builder fed with
   the content of a built playlist (segments without numbers, keys in their raw form) builds exactly
   that playlist; hence the builder path and the parser path agree on every parse result. *)
From hls Require Import Base Float Lex Kinds Types Tags Line Keys Media Master.
From hls.Generated Require Import Tables.
From hls.Spec Require Import KeySpec.
From hls.Proofs Require Import EqFacts KeysProof C06 Build Parse MediaProps C11 C03 C12 MasterText MediaText C03Items ParsedBuilt.
From Coq Require Import Lia ZifyN ZifyNat.
Open Scope N_scope.

Definition direct_segment (s : Segment) (raw : list xkey) : Segment :=
  {| sg_number := 0; sg_explicit := false; sg_keys := raw; sg_map := sg_map s; sg_range := sg_range s;
     sg_daterange := sg_daterange s; sg_disc := sg_disc s; sg_pdt := sg_pdt s; sg_inf := sg_inf s; sg_uri := sg_uri s |}.
Fixpoint direct_segments (segs : list Segment) (raws : list (list xkey)) : list Segment :=
  match segs, raws with
  | s :: r, raw :: rr => direct_segment s raw :: direct_segments r rr
  | _, _ => []
  end.
Definition builder_of (p : MediaPlaylist) (raws : list (list xkey)) : mbuilder :=
  {| b_target := Some (mp_target p); b_mseq := Some (mp_mseq p); b_dseq := Some (mp_dseq p);
     b_ptype := Some (mp_ptype p); b_iframes := Some (mp_iframes p); b_indep := Some (mp_indep p);
     b_start := Some (mp_start p); b_endlist := Some (mp_endlist p);
     b_segments := Some (map Some (direct_segments (mp_segs p) raws)); b_excess := None;
     b_unknown := Some (mp_unknown p) |}.

Lemma build_loop_direct : forall segs raws i mseq prev, keys_from_raw segs raws ->
  numbered_from (i + mseq) segs = true -> ranges_explicit segs = true ->
  Forall (fun s => sg_explicit s = false) segs ->
  build_loop (map Some (direct_segments segs raws)) i mseq prev = Ok (map Some segs).
Proof.
  induction segs as [|s r IH]; intros raws i mseq prev Hk Hn Hr He; inversion Hk as [|? raw ? raws' [Hks _] Hk']; subst; [reflexivity|].
  cbn [numbered_from] in Hn. apply andb_true_iff in Hn. destruct Hn as [Hn Hrest].
  apply andb_true_iff in Hn. destruct Hn as [Hn Hlt]. apply andb_true_iff in Hn. destruct Hn as [Hnum _].
  apply N.eqb_eq in Hnum.
  cbn [ranges_explicit forallb] in Hr. apply andb_true_iff in Hr. destruct Hr as [Hr1 Hr2].
  inversion He as [|? ? He1 He2]; subst.
  cbn [direct_segments map build_loop direct_segment sg_explicit sg_number sg_keys sg_range sg_map sg_daterange sg_disc sg_pdt sg_inf sg_uri].
  rewrite Hlt. cbn [bind].
  assert (Hrg : match sg_range s with Some r0 => rmap Some (complete_range r0 prev) | None => Ok None end = Ok (sg_range s)).
  { destruct (sg_range s) as [rg|]; [|reflexivity]. unfold complete_range. destruct (br_start rg); [reflexivity | discriminate]. }
  rewrite Hrg. cbn [bind].
  rewrite (IH raws' (i + 1) mseq _ Hk') by (try assumption; replace (i + 1 + mseq) with (i + mseq + 1) by lia; assumption).
  cbn [bind]. f_equal. f_equal. f_equal. destruct s as [num ex keys mp rg dr dc pd inf u].
  cbn [sg_number sg_explicit sg_keys sg_map sg_range sg_daterange sg_disc sg_pdt sg_inf sg_uri] in *.
  subst. fold (derive_keys (i + mseq) raw). reflexivity.
Qed.

Lemma direct_keys : forall segs raws, keys_from_raw segs raws -> map sg_keys (direct_segments segs raws) = raws.
Proof.
  induction segs as [|s r IH]; intros raws H; inversion H as [|? raw ? raws' _ Hr]; subst; [reflexivity|].
  cbn [direct_segments map direct_segment sg_keys]. f_equal. apply IH, Hr.
Qed.
Lemma direct_content : forall segs raws, keys_from_raw segs raws -> Forall2 content_eq (direct_segments segs raws) segs.
Proof.
  induction segs as [|s r IH]; intros raws H; inversion H as [|? raw ? raws' _ Hr]; subst; [constructor|].
  cbn [direct_segments]. constructor; [repeat split | apply IH, Hr].
Qed.
Lemma numbered_explicit : forall segs n, numbered_from n segs = true -> Forall (fun s => sg_explicit s = false) segs.
Proof.
  induction segs as [|s r IH]; intros n H; [constructor|]. cbn [numbered_from] in H.
  apply andb_true_iff in H. destruct H as [H Hr]. apply andb_true_iff in H. destruct H as [H _].
  apply andb_true_iff in H. destruct H as [_ He]. apply negb_true_iff in He. constructor; [exact He | apply (IH _ Hr)].
Qed.

Theorem rebuild_exact : forall p raws, built_ok p raws -> mp_excess p = 0 -> build (builder_of p raws) = Ok p.
Proof.
  intros p raws H Hex. unfold build, builder_of.
  cbn [b_target b_mseq b_dseq b_ptype b_iframes b_indep b_start b_endlist b_segments b_excess b_unknown odef of_opt bind].
  pose proof (direct_content _ _ (bo_keys _ _ H)) as Hc.
  assert (Hv : validate_segments
     {| b_target := Some (mp_target p); b_mseq := Some (mp_mseq p); b_dseq := Some (mp_dseq p);
        b_ptype := Some (mp_ptype p); b_iframes := Some (mp_iframes p); b_indep := Some (mp_indep p);
        b_start := Some (mp_start p); b_endlist := Some (mp_endlist p);
        b_segments := Some (map Some (direct_segments (mp_segs p) raws)); b_excess := None;
        b_unknown := Some (mp_unknown p) |} (mp_target p) = true).
  { unfold validate_segments. cbn [b_segments b_indep b_excess]. rewrite present_map_some.
    apply andb_true_iff. split; [apply andb_true_iff; split|].
    - destruct (mp_indep p) eqn:Ei; [|reflexivity].
      rewrite indep_ok_alt, (direct_keys _ _ (bo_keys _ _ H)).
      destruct (derive_concat _ _ (bo_keys _ _ H)) as [E1 E2]. rewrite <- E1, <- E2, <- indep_ok_alt. apply (bo_indep _ _ H Ei).
    - unfold max_seg_dur. rewrite (content_durations _ _ _ Hc). apply (bo_durations _ _ H).
    - apply ranges_ok_explicit. rewrite (content_ranges_explicit _ _ Hc). apply (bo_ranges _ _ H). }
  rewrite Hv. rewrite present_map_some.
  assert (Hfirst : match direct_segments (mp_segs p) raws with
                   | f :: _ => negb ((sg_number f <? mp_mseq p) && sg_explicit f) | [] => true end = true).
  { destruct (mp_segs p) as [|s r], raws as [|raw rr]; try reflexivity. cbn [direct_segments direct_segment sg_explicit].
    rewrite andb_false_r. reflexivity. }
  rewrite Hfirst.
  rewrite (build_loop_direct (mp_segs p) raws 0 (mp_mseq p) None (bo_keys _ _ H) (bo_numbers _ _ H) (bo_ranges _ _ H)
             (numbered_explicit _ _ (bo_numbers _ _ H))).
  cbn [bind].
  assert (Hall : forallb is_some (map Some (mp_segs p)) = true) by (rewrite forallb_map; apply forallb_forall; reflexivity).
  rewrite Hall, present_map_some. destruct p. cbn in Hex |- *. subst. reflexivity.
Qed.

(* for values obtained by parsing *)
Lemma parsed_excess : forall s p, parse_media s = Ok p -> mp_excess p = 0.
Proof.
  intros s p H. unfold parse_media, parse_media_with in H. apply bind_ok in H. destruct H as [rest [_ H]].
  destruct (parse_items_inv _ _ _ H) as [st [Hr [Hpart Hf]]].
  assert (Hb : binv (ps_b st)) by (apply (run_lines_binv (lines_of rest) (init_state mb_default) st); [split; [reflexivity | exact I] | exact Hr]).
  destruct Hb as [He _]. unfold finish_media in Hf. rewrite Hpart in Hf. apply build_ok_inv in Hf.
  destruct Hf as [t [slots [slots' [_ [_ [_ [_ [_ [_ [_ [_ Hx]]]]]]]]]]]. cbn [b_excess] in Hx. rewrite He in Hx. exact Hx.
Qed.
Theorem parsed_rebuild : forall s p, parse_media s = Ok p -> exists raws, build (builder_of p raws) = Ok p.
Proof.
  intros s p H. destruct (parsed_media_built s p H) as [raws Hb]. exists raws.
  apply (rebuild_exact p raws Hb (parsed_excess s p H)).
Qed.
