(* KeyIff.v — C14 for keys as an iff over ALL attribute lists (any order, duplicates, unknown attributes): the key
   parser accepts exactly when every METHOD / IV / KEYFORMATVERSIONS attribute is well formed, some METHOD attribute is
   present and some URI attribute has a non-blank value. *)
From hls Require Import Base Float Lex Kinds Types.
From hls.Generated Require Import Tables.
From hls.Proofs Require Import EqFacts NoPanic.
Open Scope N_scope.

Definition key_pair_ok (kv : str * str) : bool :=
  let '(k, v) := kv in
  if str_eqb k s_METHOD then is_ok (enum_parse enum_EncryptionMethod v)
  else if str_eqb k s_URI then true
  else if str_eqb k s_IV then is_ok (parse_iv v)
  else if str_eqb k s_KEYFORMAT then true
  else if str_eqb k s_KEYFORMATVERSIONS then is_ok (parse_kfv v)
  else true.
Definition is_method (kv : str * str) : bool := str_eqb (fst kv) s_METHOD.
Definition is_good_uri (kv : str * str) : bool :=
  negb (str_eqb (fst kv) s_METHOD) && str_eqb (fst kv) s_URI && negb (is_nil (trim (unquote (snd kv)))).

Definition key_of_pairs (l : list (str * str)) : res Key :=
  let! a := fold_res key_attr l {| ka_method := None; ka_uri := None; ka_iv := None; ka_format := None; ka_versions := None |} in
  let! m := of_opt (ka_method a) in
  let! u := of_opt (ka_uri a) in
  Ok {| k_method := m; k_uri := u; k_iv := match ka_iv a with Some iv => iv | None => IvMissing end;
        k_format := ka_format a; k_versions := ka_versions a |}.
Lemma parse_decryption_key_pairs : forall s, parse_decryption_key s = key_of_pairs (attr_pairs s).
Proof. reflexivity. Qed.

Lemma fold_key_spec : forall l a,
  match fold_res key_attr l a with
  | Ok a' => forallb key_pair_ok l = true
             /\ is_some (ka_method a') = is_some (ka_method a) || existsb is_method l
             /\ is_some (ka_uri a') = is_some (ka_uri a) || existsb is_good_uri l
  | Err => forallb key_pair_ok l = false
  | Panic => False
  end.
Proof.
  induction l as [|[k v] l IH]; intros a.
  - cbn [fold_res forallb existsb]. rewrite !orb_false_r. auto.
  - cbn [fold_res forallb existsb].
    assert (IH' : forall a0, match fold_res key_attr l a0 with
                             | Ok a' => forallb key_pair_ok l = true /\ is_some (ka_method a') = is_some (ka_method a0) || existsb is_method l
                                        /\ is_some (ka_uri a') = is_some (ka_uri a0) || existsb is_good_uri l
                             | Err => forallb key_pair_ok l = false | Panic => False end) by exact IH.
    clear IH. rename IH' into IH.
    set (P := forallb key_pair_ok l) in *. set (M := existsb is_method l) in *. set (U := existsb is_good_uri l) in *.
    set (F := fold_res key_attr l) in *.
    unfold key_attr, key_pair_ok, is_method, is_good_uri. cbn [fst snd].
    destruct (str_eqb k s_METHOD) eqn:E1.
    + destruct (enum_parse enum_EncryptionMethod v) as [m| |] eqn:Em; cbn [bind is_ok andb negb].
      * specialize (IH {| ka_method := Some m; ka_uri := ka_uri a; ka_iv := ka_iv a; ka_format := ka_format a; ka_versions := ka_versions a |}).
        destruct (F _) as [a'| |]; [|exact IH|exact IH].
        destruct IH as [I1 [I2 I3]]. cbn [ka_method ka_uri is_some] in I2, I3. rewrite I1, I2, I3.
        cbn [orb]. rewrite orb_true_r. auto.
      * reflexivity.
      * exfalso. exact (enum_parse_np _ _ Em).
    + cbn [negb andb]. destruct (str_eqb k s_URI) eqn:E2.
      * cbn [andb]. destruct (is_nil (trim (unquote v))) eqn:En; cbn [negb].
        -- cbn [bind]. specialize (IH a). destruct (F a) as [a'| |]; [|exact IH|exact IH].
           destruct IH as [I1 [I2 I3]]. rewrite I1, I2, I3. cbn [orb]. auto.
        -- cbn [bind]. specialize (IH {| ka_method := ka_method a; ka_uri := Some (unquote v); ka_iv := ka_iv a; ka_format := ka_format a; ka_versions := ka_versions a |}).
           destruct (F _) as [a'| |]; [|exact IH|exact IH].
           destruct IH as [I1 [I2 I3]]. cbn [ka_method ka_uri is_some] in I2, I3. rewrite I1, I2, I3. cbn [orb]. rewrite orb_true_r. auto.
      * cbn [andb orb]. destruct (str_eqb k s_IV) eqn:E3.
        -- destruct (parse_iv v) as [iv| |] eqn:Ei; cbn [bind is_ok andb].
           ++ specialize (IH {| ka_method := ka_method a; ka_uri := ka_uri a; ka_iv := Some iv; ka_format := ka_format a; ka_versions := ka_versions a |}).
              destruct (F _) as [a'| |]; [|exact IH|exact IH]. exact IH.
           ++ reflexivity.
           ++ exfalso. exact (parse_iv_np _ Ei).
        -- destruct (str_eqb k s_KEYFORMAT) eqn:E4.
           ++ cbn [bind]. specialize (IH {| ka_method := ka_method a; ka_uri := ka_uri a; ka_iv := ka_iv a; ka_format := Some (parse_key_format v); ka_versions := ka_versions a |}).
              destruct (F _) as [a'| |]; [|exact IH|exact IH]. exact IH.
           ++ destruct (str_eqb k s_KEYFORMATVERSIONS) eqn:E5.
              ** destruct (parse_kfv v) as [vs| |] eqn:Ev; cbn [bind is_ok andb].
                 --- specialize (IH {| ka_method := ka_method a; ka_uri := ka_uri a; ka_iv := ka_iv a; ka_format := ka_format a; ka_versions := Some vs |}).
                     destruct (F _) as [a'| |]; [|exact IH|exact IH]. exact IH.
                 --- reflexivity.
                 --- exfalso. exact (parse_kfv_np _ Ev).
              ** cbn [bind]. specialize (IH a). destruct (F a) as [a'| |]; [|exact IH|exact IH]. exact IH.
Qed.

(* the key parser accepts an attribute list iff ... *)
Theorem key_accept_iff : forall l,
  is_ok (key_of_pairs l) = forallb key_pair_ok l && existsb is_method l && existsb is_good_uri l.
Proof.
  intros l. unfold key_of_pairs.
  pose proof (fold_key_spec l {| ka_method := None; ka_uri := None; ka_iv := None; ka_format := None; ka_versions := None |}) as H.
  destruct (fold_res key_attr l _) as [a'| |]; cbn [bind].
  - destruct H as [H1 [H2 H3]]. cbn [ka_method ka_uri is_some orb] in H2, H3. rewrite H1, <- H2, <- H3. cbn [andb].
    destruct (ka_method a'), (ka_uri a'); reflexivity.
  - rewrite H. reflexivity.
  - destruct H.
Qed.
Theorem key_text_accept_iff : forall s,
  is_ok (parse_decryption_key s) =
  forallb key_pair_ok (attr_pairs s) && existsb is_method (attr_pairs s) && existsb is_good_uri (attr_pairs s).
Proof. intros s. rewrite parse_decryption_key_pairs. apply key_accept_iff. Qed.
