(* Restyle.v — C12 as ONE theorem over whole playlists: the closure of the elementary presentation changes
   (comment / redundant version lines inserted, a line replaced by another spelling of the same tag, a STREAM-INF
   line respelled, a block of free tags permuted) on the list of cleaned lines leaves the parse result unchanged.
   The text-level changes that do not even change the cleaned lines (CRLF, blank lines, padding) are C12.v. *)
From hls Require Import Base Float Lex Kinds Types Tags Line Keys Media Master.
From hls.Generated Require Import Tables.
From hls.Proofs Require Import EqFacts Build Parse MediaProps C12 StepOrder.
From Coq Require Import Permutation Lia Relations.
Open Scope N_scope.

(* ---------- the item of an unpaired line ---------- *)
Definition single (l : str) : bool := negb (starts_with pairing_prefix l).
Definition item1 (l : str) : res line :=
  if starts_with s_hashEXT l then rmap LTag (parse_kind (classify l) l)
  else if starts_with [35] l then Ok LComment else Ok (LUri l).

Lemma items_single : forall l rest, single l = true -> items (l :: rest) = item1 l :: items rest.
Proof.
  intros l rest H. unfold single in H. apply negb_true_iff in H. cbn [items]. rewrite H. unfold item1.
  destruct (starts_with s_hashEXT l); [reflexivity|]. destruct (starts_with [35] l); reflexivity.
Qed.
Lemma items_pair : forall l u rest, single l = false ->
  items (l :: u :: rest) = rmap (fun v => LTag (TVariant v)) (parse_streaminf l u) :: items rest.
Proof. intros l u rest H. unfold single in H. apply negb_false_iff in H. cbn [items]. rewrite H. reflexivity. Qed.

(* a list of lines in which every STREAM-INF line has its URI line: `items` consumes it completely *)
Fixpoint closed_fuel (n : nat) (ls : list str) : bool :=
  match n with
  | O => false
  | S k => match ls with
           | [] => true
           | l :: rest => if single l then closed_fuel k rest
                          else match rest with [] => false | _ :: rest' => closed_fuel k rest' end
           end
  end.
Definition closed (ls : list str) : bool := closed_fuel (S (List.length ls)) ls.

Lemma closed_fuel_S : forall k ls, closed_fuel (S k) ls =
  match ls with
  | [] => true
  | l :: rest => if single l then closed_fuel k rest
                 else match rest with [] => false | _ :: rest' => closed_fuel k rest' end
  end.
Proof. reflexivity. Qed.
Lemma closed_fuel_any : forall n m ls, (List.length ls < n)%nat -> (List.length ls < m)%nat -> closed_fuel n ls = closed_fuel m ls.
Proof.
  induction n as [|n IH]; intros m ls Hn Hm; [lia|].
  destruct m as [|m]; [lia|].
  rewrite !closed_fuel_S.
  destruct ls as [|l rest]; [reflexivity|]. cbn [List.length] in *.
  destruct (single l).
  - apply IH; lia.
  - destruct rest as [|u rest']; [reflexivity|]. cbn [List.length] in *. apply IH; lia.
Qed.
Lemma closed_fuel_mono : forall n ls, (List.length ls < n)%nat -> closed_fuel n ls = closed_fuel (S (List.length ls)) ls.
Proof. intros n ls H. apply closed_fuel_any; lia. Qed.
Lemma closed_nil : closed [] = true. Proof. reflexivity. Qed.
Lemma closed_single : forall l rest, single l = true -> closed (l :: rest) = closed rest.
Proof. intros l rest H. unfold closed. rewrite closed_fuel_S. rewrite H. reflexivity. Qed.
Lemma closed_pair : forall l u rest, single l = false -> closed (l :: u :: rest) = closed rest.
Proof.
  intros l u rest H. unfold closed. rewrite closed_fuel_S. rewrite H.
  apply closed_fuel_any; cbn [List.length]; lia.
Qed.
Lemma closed_lone : forall l, single l = false -> closed [l] = false.
Proof. intros l H. unfold closed. rewrite closed_fuel_S. rewrite H. reflexivity. Qed.

Lemma items_app_fuel : forall n a b, (List.length a < n)%nat -> closed a = true -> items (a ++ b) = items a ++ items b.
Proof.
  induction n as [|n IH]; intros a b Hn Hc; [lia|].
  destruct a as [|l rest]; [reflexivity|].
  destruct (single l) eqn:Hs.
  - rewrite closed_single in Hc by assumption. cbn [app]. rewrite !items_single by assumption.
    cbn [app]. f_equal. apply IH; [cbn [List.length] in Hn; lia | assumption].
  - destruct rest as [|u rest'].
    + rewrite closed_lone in Hc by assumption. discriminate.
    + rewrite closed_pair in Hc by assumption. cbn [app]. rewrite !items_pair by assumption.
      cbn [app]. f_equal. apply IH; [cbn [List.length] in Hn; lia | assumption].
Qed.
Lemma items_app : forall a b, closed a = true -> items (a ++ b) = items a ++ items b.
Proof. intros a b. apply (items_app_fuel (S (List.length a))). lia. Qed.

Lemma items_singles : forall blk rest, forallb single blk = true -> items (blk ++ rest) = map item1 blk ++ items rest.
Proof.
  induction blk as [|l blk IH]; intros rest H; [reflexivity|].
  cbn [forallb] in H. apply andb_true_iff in H. destruct H as [Hl Hb].
  cbn [app map]. rewrite items_single by assumption. f_equal. apply IH. assumption.
Qed.

(* ---------- the elementary presentation changes, on the cleaned lines ---------- *)
Inductive lstep : list str -> list str -> Prop :=
| ls_insert : forall a c b, closed a = true -> single c = true ->
    (item1 c = Ok LComment \/ exists v, item1 c = Ok (LTag (TVersion v))) -> lstep (a ++ b) (a ++ c :: b)
| ls_replace : forall a l l' b, closed a = true -> single l = true -> single l' = true ->
    item1 l = item1 l' -> lstep (a ++ l :: b) (a ++ l' :: b)
| ls_replace_pair : forall a l l' u b, closed a = true -> single l = false -> single l' = false ->
    parse_streaminf l u = parse_streaminf l' u -> lstep (a ++ l :: u :: b) (a ++ l' :: u :: b).
(* media playlists only: a block of free tags of pairwise different kinds in another order *)
Inductive lstep_media : list str -> list str -> Prop :=
| lm_common : forall x y, lstep x y -> lstep_media x y
| lm_block : forall a blk blk' ts ts' b, closed a = true -> forallb single blk = true -> forallb single blk' = true ->
    map item1 blk = map tline ts -> map item1 blk' = map tline ts' -> Permutation ts ts' ->
    NoDup (map kind_of ts) -> forallb free_tag ts = true -> lstep_media (a ++ blk ++ b) (a ++ blk' ++ b).

Lemma run_lines_cong_app : forall l1 l2 l2' s,
  (forall s', run_lines s' l2 = run_lines s' l2') -> run_lines s (l1 ++ l2) = run_lines s (l1 ++ l2').
Proof. intros. rewrite !run_lines_app. destruct (run_lines s l1); cbn [bind]; auto. Qed.
Lemma mrun_lines_cong_app : forall l1 l2 l2' s,
  (forall s', mrun_lines s' l2 = mrun_lines s' l2') -> mrun_lines s (l1 ++ l2) = mrun_lines s (l1 ++ l2').
Proof. intros. rewrite !mrun_lines_app. destruct (mrun_lines s l1); cbn [bind]; auto. Qed.

Lemma lstep_items_media : forall x y, lstep x y -> forall s, run_lines s (items x) = run_lines s (items y).
Proof.
  intros x y H s. destruct H as [a c b Ha Hc Hi | a l l' b Ha Hl Hl' Hi | a l l' u b Ha Hl Hl' Hi].
  - rewrite (items_app a b Ha), (items_app a (c :: b) Ha). rewrite items_single by assumption.
    destruct Hi as [Hi | [v Hi]]; rewrite Hi; symmetry;
      [apply comment_invariant_media | apply version_tag_invariant_media].
  - rewrite (items_app a (l :: b) Ha), (items_app a (l' :: b) Ha). rewrite !items_single by assumption. rewrite Hi. reflexivity.
  - rewrite (items_app a (l :: u :: b) Ha), (items_app a (l' :: u :: b) Ha). rewrite !items_pair by assumption. rewrite Hi. reflexivity.
Qed.
Lemma lstep_items_master : forall x y, lstep x y -> forall s, mrun_lines s (items x) = mrun_lines s (items y).
Proof.
  intros x y H s. destruct H as [a c b Ha Hc Hi | a l l' b Ha Hl Hl' Hi | a l l' u b Ha Hl Hl' Hi].
  - rewrite (items_app a b Ha), (items_app a (c :: b) Ha). rewrite items_single by assumption.
    destruct Hi as [Hi | [v Hi]]; rewrite Hi; symmetry;
      [apply comment_invariant_master | apply version_tag_invariant_master].
  - rewrite (items_app a (l :: b) Ha), (items_app a (l' :: b) Ha). rewrite !items_single by assumption. rewrite Hi. reflexivity.
  - rewrite (items_app a (l :: u :: b) Ha), (items_app a (l' :: u :: b) Ha). rewrite !items_pair by assumption. rewrite Hi. reflexivity.
Qed.
Lemma lstep_media_items : forall x y, lstep_media x y -> forall s, run_lines s (items x) = run_lines s (items y).
Proof.
  intros x y H s. destruct H as [x y H | a blk blk' ts ts' b Ha Hb Hb' Hi Hi' HP Hnd Hf].
  - apply lstep_items_media. assumption.
  - rewrite (items_app a (blk ++ b) Ha), (items_app a (blk' ++ b) Ha).
    rewrite (items_singles blk b Hb), (items_singles blk' b Hb'). rewrite Hi, Hi'.
    apply run_lines_cong_app. intros s'. apply free_block_order; assumption.
Qed.

(* ---------- the closure ---------- *)
Definition restyle_media := clos_refl_sym_trans (list str) lstep_media.
Definition restyle_master := clos_refl_sym_trans (list str) lstep.

Lemma restyle_media_items : forall x y, restyle_media x y -> forall s, run_lines s (items x) = run_lines s (items y).
Proof.
  induction 1 as [x y H | x | x y _ IH | x y z _ IH1 _ IH2]; intros s.
  - apply lstep_media_items. assumption.
  - reflexivity.
  - symmetry. apply IH.
  - rewrite IH1. apply IH2.
Qed.
Lemma restyle_master_items : forall x y, restyle_master x y -> forall s, mrun_lines s (items x) = mrun_lines s (items y).
Proof.
  induction 1 as [x y H | x | x y _ IH | x y z _ IH1 _ IH2]; intros s.
  - apply lstep_items_master. assumption.
  - reflexivity.
  - symmetry. apply IH.
  - rewrite IH1. apply IH2.
Qed.

(* whole texts: after the EXTM3U tag the cleaned lines are related by the closure -> same parse result *)
Theorem restyle_parse_media : forall t t' r r' b0, tag t pfx_ExtM3u = Ok r -> tag t' pfx_ExtM3u = Ok r' ->
  restyle_media (clean_lines r) (clean_lines r') -> parse_media_with b0 t = parse_media_with b0 t'.
Proof.
  intros t t' r r' b0 Ht Ht' H. unfold parse_media_with. rewrite Ht, Ht'. cbn [bind].
  unfold parse_items, lines_of. rewrite (restyle_media_items _ _ H). reflexivity.
Qed.
Theorem restyle_parse_master : forall t t' r r', tag t pfx_ExtM3u = Ok r -> tag t' pfx_ExtM3u = Ok r' ->
  restyle_master (clean_lines r) (clean_lines r') -> parse_master t = parse_master t'.
Proof.
  intros t t' r r' Ht Ht' H. unfold parse_master. rewrite Ht, Ht'. cbn [bind].
  unfold parse_master_items, lines_of. rewrite (restyle_master_items _ _ H). reflexivity.
Qed.
