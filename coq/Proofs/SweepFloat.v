(* f32 attribute values on decimal grids: FRAME-RATE ({:.3} writer) for every hundredth up to 61.00 and the standard rates
   — ufloat_rt evaluated for every value *)
From hls Require Import Base Float Lex Kinds Types Tags.
From hls.Proofs Require Import TagText Sweep.
From Coq Require Import ZArith.
Open Scope N_scope.
Definition f32_of_dec (neg : bool) (m : N) (e : Z) : fval := dec_to_f b32 (DNum neg (Z.of_N m) e).
Lemma frame_rate_hundredths : forallb (fun n => ufloat_rt (f32_of_dec false n (-2))) (range 0 (N.to_nat 6101)) = true.
Proof. vm_compute. reflexivity. Qed.
Definition standard_rates : list N := [23976; 24000; 25000; 29970; 30000; 47952; 48000; 50000; 59940; 60000; 100000; 119880; 120000; 240000].
Lemma frame_rate_standard : forallb (fun n => ufloat_rt (f32_of_dec false n (-3))) standard_rates = true.
Proof. vm_compute. reflexivity. Qed.
