(* Proofs for C04: the master writer has no state; the tags it writes, read back in order,
   rebuild the same value (item level). *)
From hls Require Import Base Float Lex Kinds Types Tags Line Keys Media Master.
From hls.Generated Require Import Tables.
From hls.Proofs Require Import EqFacts Build Parse C12.
Open Scope N_scope.

(* the tags of a master playlist in the order the writer emits them *)
Definition master_items (p : MasterPlaylist) : list line :=
  map (fun m => LTag (TMedia m)) (ma_media p)
  ++ map (fun v => LTag (TVariant v)) (ma_variants p)
  ++ map (fun d => LTag (TSessionData d)) (ma_sdata p)
  ++ map (fun k => LTag (TSessionKey k)) (ma_skeys p)
  ++ (if ma_indep p then [LTag TIndep] else [])
  ++ match ma_start p with Some s => [LTag (TStart s)] | None => [] end
  ++ map (fun u => LTag (TUnknown u)) (ma_unknown p).

Lemma accepted_kinds :
  in_kinds K_ExtXMedia master_rejects = false /\ in_kinds K_VariantStream master_rejects = false
  /\ in_kinds K_ExtXSessionData master_rejects = false /\ in_kinds K_ExtXSessionKey master_rejects = false
  /\ in_kinds K_ExtXIndependentSegments master_rejects = false /\ in_kinds K_ExtXStart master_rejects = false
  /\ in_kinds K_Unknown master_rejects = false.
Proof. vm_compute. repeat split. Qed.

Definition st (i : bool) (s : option Start) (m : list Media) (v : list Variant) (d : list SessionData)
              (k : list Key) (u : list str) : mstate :=
  {| ms_indep := i; ms_start := s; ms_media := m; ms_variants := v; ms_sdata := d; ms_skeys := k; ms_unknown := u |}.

Lemma run_medias : forall l i s m v d k u,
  mrun_lines (st i s m v d k u) (map Ok (map (fun x => LTag (TMedia x)) l)) = Ok (st i s (rev l ++ m) v d k u).
Proof.
  destruct accepted_kinds as [K1 _]. induction l as [|x l IH]; intros; [reflexivity|].
  cbn [map mrun_lines bind]. unfold mstep. cbn [kind_of]. rewrite K1. cbn [bind st ms_indep ms_start ms_media ms_variants ms_sdata ms_skeys ms_unknown].
  change (mrun_lines (st i s (x :: m) v d k u) (map Ok (map (fun x0 => LTag (TMedia x0)) l)) = Ok (st i s (rev (x :: l) ++ m) v d k u)).
  rewrite IH. simpl. rewrite <- app_assoc. reflexivity.
Qed.
Lemma run_variants : forall l i s m v d k u,
  mrun_lines (st i s m v d k u) (map Ok (map (fun x => LTag (TVariant x)) l)) = Ok (st i s m (rev l ++ v) d k u).
Proof.
  destruct accepted_kinds as [_ [K2 _]]. induction l as [|x l IH]; intros; [reflexivity|].
  cbn [map mrun_lines bind]. unfold mstep. cbn [kind_of]. rewrite K2. cbn [bind st ms_indep ms_start ms_media ms_variants ms_sdata ms_skeys ms_unknown].
  change (mrun_lines (st i s m (x :: v) d k u) (map Ok (map (fun x0 => LTag (TVariant x0)) l)) = Ok (st i s m (rev (x :: l) ++ v) d k u)).
  rewrite IH. simpl. rewrite <- app_assoc. reflexivity.
Qed.
Lemma run_sdatas : forall l i s m v d k u,
  mrun_lines (st i s m v d k u) (map Ok (map (fun x => LTag (TSessionData x)) l)) = Ok (st i s m v (rev l ++ d) k u).
Proof.
  destruct accepted_kinds as [_ [_ [K3 _]]]. induction l as [|x l IH]; intros; [reflexivity|].
  cbn [map mrun_lines bind]. unfold mstep. cbn [kind_of]. rewrite K3. cbn [bind st ms_indep ms_start ms_media ms_variants ms_sdata ms_skeys ms_unknown].
  change (mrun_lines (st i s m v (x :: d) k u) (map Ok (map (fun x0 => LTag (TSessionData x0)) l)) = Ok (st i s m v (rev (x :: l) ++ d) k u)).
  rewrite IH. simpl. rewrite <- app_assoc. reflexivity.
Qed.
Lemma run_skeys : forall l i s m v d k u,
  mrun_lines (st i s m v d k u) (map Ok (map (fun x => LTag (TSessionKey x)) l)) = Ok (st i s m v d (rev l ++ k) u).
Proof.
  destruct accepted_kinds as [_ [_ [_ [K4 _]]]]. induction l as [|x l IH]; intros; [reflexivity|].
  cbn [map mrun_lines bind]. unfold mstep. cbn [kind_of]. rewrite K4. cbn [bind st ms_indep ms_start ms_media ms_variants ms_sdata ms_skeys ms_unknown].
  change (mrun_lines (st i s m v d (x :: k) u) (map Ok (map (fun x0 => LTag (TSessionKey x0)) l)) = Ok (st i s m v d (rev (x :: l) ++ k) u)).
  rewrite IH. simpl. rewrite <- app_assoc. reflexivity.
Qed.
Lemma run_unknowns : forall l i s m v d k u,
  mrun_lines (st i s m v d k u) (map Ok (map (fun x => LTag (TUnknown x)) l)) = Ok (st i s m v d k (rev l ++ u)).
Proof.
  destruct accepted_kinds as [_ [_ [_ [_ [_ [_ K7]]]]]]. induction l as [|x l IH]; intros; [reflexivity|].
  cbn [map mrun_lines bind]. unfold mstep. cbn [kind_of]. rewrite K7. cbn [bind st ms_indep ms_start ms_media ms_variants ms_sdata ms_skeys ms_unknown].
  change (mrun_lines (st i s m v d k (x :: u)) (map Ok (map (fun x0 => LTag (TUnknown x0)) l)) = Ok (st i s m v d k (rev (x :: l) ++ u))).
  rewrite IH. simpl. rewrite <- app_assoc. reflexivity.
Qed.

Theorem master_items_roundtrip : forall p, validate_master p = true ->
  parse_master_items (map Ok (master_items p)) = Ok p.
Proof.
  intros [i s m v d k u] Hv. unfold parse_master_items, master_items. cbn [ma_indep ma_start ma_media ma_variants ma_sdata ma_skeys ma_unknown].
  change ms_init with (st false None [] [] [] [] []).
  rewrite !map_app.
  rewrite mrun_lines_app, run_medias. cbn [bind].
  rewrite mrun_lines_app, run_variants. cbn [bind].
  rewrite mrun_lines_app, run_sdatas. cbn [bind].
  rewrite mrun_lines_app, run_skeys. cbn [bind].
  destruct accepted_kinds as [_ [_ [_ [_ [K5 [K6 _]]]]]].
  assert (Hi : forall m' v' d' k' rest, mrun_lines (st false None m' v' d' k' []) (map Ok (if i then [LTag TIndep] else []) ++ rest)
                  = mrun_lines (st i None m' v' d' k' []) rest).
  { intros. destruct i; [|reflexivity]. cbn [map app mrun_lines bind]. unfold mstep. cbn [kind_of]. rewrite K5. reflexivity. }
  rewrite Hi.
  assert (Hs : forall m' v' d' k' rest, mrun_lines (st i None m' v' d' k' []) (map Ok (match s with Some x => [LTag (TStart x)] | None => [] end) ++ rest)
                  = mrun_lines (st i s m' v' d' k' []) rest).
  { intros. destruct s; [|reflexivity]. cbn [map app mrun_lines bind]. unfold mstep. cbn [kind_of]. rewrite K6. reflexivity. }
  rewrite Hs. rewrite run_unknowns. cbn [bind].
  unfold finish_master, st. cbn [ms_indep ms_start ms_media ms_variants ms_sdata ms_skeys ms_unknown].
  rewrite !app_nil_r, !rev_involutive. rewrite Hv. reflexivity.
Qed.
