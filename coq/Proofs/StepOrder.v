(* StepOrder.v — C12: the relative order of the playlist-level tags, and of the non-key tags that precede a
   segment's URI, does not matter: the parser steps of tags of different kinds commute. *)
From hls Require Import Base Float Lex Kinds Types Tags Line Keys Media Master.
From hls.Generated Require Import Tables.
From hls.Proofs Require Import EqFacts Build Parse MediaProps C12.
From Coq Require Import Permutation Lia.
Open Scope N_scope.

(* tags whose step always succeeds and writes one field of the pending segment or of the builder (EXT-X-KEY changes
   the keys other tags snapshot, EXT-X-DISCONTINUITY-SEQUENCE is guarded by the segments read so far: both excluded) *)
Definition free_tag (t : tagv) : bool :=
  match t with
  | TInf _ | TByteRange _ | TPdt _ | TDateRange _ | TDiscontinuity | TMap _
  | TTarget _ | TMediaSeq _ | TPlaylistType _ | TIFramesOnly | TIndep | TStart _ | TEndList | TVersion _ => true
  | _ => false
  end.
Definition tstep (s : pstate) (t : tagv) : res pstate := step s (LTag t).

Lemma free_not_rejected : forall t, free_tag t = true -> in_kinds (kind_of t) media_rejects = false.
Proof. intros t H. destruct t; try discriminate H; reflexivity. Qed.
Lemma free_ok : forall s t, free_tag t = true -> exists s', tstep s t = Ok s'.
Proof.
  intros s t H. unfold tstep, step. rewrite (free_not_rejected t H). destruct t; try discriminate H; cbn [step_tag]; eexists; reflexivity.
Qed.
Lemma free_commute : forall s t1 t2 s1 s2 s12 s21, free_tag t1 = true -> free_tag t2 = true -> kind_of t1 <> kind_of t2 ->
  tstep s t1 = Ok s1 -> tstep s1 t2 = Ok s12 -> tstep s t2 = Ok s2 -> tstep s2 t1 = Ok s21 -> s12 = s21.
Proof.
  intros s t1 t2 s1 s2 s12 s21 F1 F2 Hne H1 H12 H2 H21. unfold tstep, step in *.
  rewrite (free_not_rejected t1 F1) in *. rewrite (free_not_rejected t2 F2) in *.
  destruct t1; try discriminate F1; destruct t2; try discriminate F2; try (exfalso; apply Hne; reflexivity);
    cbn [step_tag set_seg set_b] in *;
    inversion H1; subst s1; inversion H2; subst s2; cbn [ps_seg ps_partial ps_hasdisc ps_unknown ps_keys ps_segs ps_b
      sa_map sa_range sa_daterange sa_disc sa_pdt sa_inf b_target b_mseq b_dseq b_ptype b_iframes b_indep b_start b_endlist
      b_segments b_excess b_unknown] in *;
    inversion H12; inversion H21; reflexivity.
Qed.

Definition tline (t : tagv) : res line := Ok (LTag t).
Lemma run_tag : forall s t rest, run_lines s (tline t :: rest) = bind (tstep s t) (fun s' => run_lines s' rest).
Proof. reflexivity. Qed.
Lemma swap_free : forall s t1 t2 rest, free_tag t1 = true -> free_tag t2 = true -> kind_of t1 <> kind_of t2 ->
  run_lines s (tline t1 :: tline t2 :: rest) = run_lines s (tline t2 :: tline t1 :: rest).
Proof.
  intros s t1 t2 rest F1 F2 Hne. rewrite !run_tag.
  destruct (free_ok s t1 F1) as [s1 E1]. destruct (free_ok s t2 F2) as [s2 E2]. rewrite E1, E2. cbn [bind]. rewrite !run_tag.
  destruct (free_ok s1 t2 F2) as [s12 E12]. destruct (free_ok s2 t1 F1) as [s21 E21]. rewrite E12, E21. cbn [bind].
  rewrite (free_commute s t1 t2 s1 s2 s12 s21 F1 F2 Hne E1 E12 E2 E21). reflexivity.
Qed.
(* a block of such tags of pairwise different kinds may be written in any order *)
Theorem free_block_order : forall l1 l2, Permutation l1 l2 -> NoDup (map kind_of l1) -> forallb free_tag l1 = true ->
  forall s rest, run_lines s (map tline l1 ++ rest) = run_lines s (map tline l2 ++ rest).
Proof.
  induction 1 as [|x l1 l2 HP IH|x y l|l1 l2 l3 H12 IH12 H23 IH23]; intros Hnd Hf s rest.
  - reflexivity.
  - cbn [map app]. rewrite !run_tag. destruct (tstep s x); cbn [bind]; try reflexivity.
    apply IH; [inversion Hnd; assumption | cbn [forallb] in Hf; apply andb_true_iff in Hf; tauto].
  - cbn [map app]. cbn [forallb] in Hf. apply andb_true_iff in Hf. destruct Hf as [Fy Hf]. apply andb_true_iff in Hf. destruct Hf as [Fx _].
    apply swap_free; [exact Fy | exact Fx|]. inversion Hnd as [|? ? Hn _]; subst. intros E. apply Hn. left. symmetry. exact E.
  - rewrite IH12 by assumption. apply IH23.
    + eapply Permutation_NoDup; [apply Permutation_map; eassumption | assumption].
    + rewrite forallb_forall in *. intros t Ht. apply Hf. eapply Permutation_in; [apply Permutation_sym; eassumption | exact Ht].
Qed.
