(* Proofs for C13: validation accepts exactly the consistent master playlists. *)
From hls Require Import Base Float Lex Kinds Types Tags Line Keys Media Master.
From hls.Spec Require Import GroupSpec.
From hls.Proofs Require Import EqFacts.
From Coq Require Import Lia.

Lemma check_group_spec : forall media ty g,
  check_media_group media ty g = true <-> defines media (ty, g).
Proof.
  intros. unfold check_media_group, defines. rewrite existsb_exists. simpl.
  split; intros [m [Hin H]]; exists m.
  - rewrite andb_true_iff, N.eqb_eq, str_eqb_eq in H. tauto.
  - rewrite andb_true_iff, N.eqb_eq, str_eqb_eq. tauto.
Qed.

Lemma oref_spec : forall media ty o,
  match o with Some g => check_media_group media ty g | None => true end = true
  <-> forall r, In r (oref ty o) -> defines media r.
Proof.
  intros media ty [g|]; simpl.
  - rewrite check_group_spec. split.
    + intros H r [<- | []]. assumption.
    + intros H. apply H. left; reflexivity.
  - split; [intros _ r [] | reflexivity].
Qed.

Lemma variant_groups_spec : forall media v,
  variant_groups_ok media v = true <-> forall r, In r (refs v) -> defines media r.
Proof.
  intros media [u sd | u fr au su cc sd]; simpl.
  - apply oref_spec.
  - rewrite !andb_true_iff.
    rewrite (oref_spec media mt_audio au), (oref_spec media mt_video (sd_video sd)),
      (oref_spec media mt_subtitles su).
    assert (Hcc : match cc with Some (CcGroup g) => check_media_group media mt_cc g | _ => true end = true
                  <-> forall r, In r (match cc with Some (CcGroup g) => [(mt_cc, g)] | _ => [] end) -> defines media r).
    { destruct cc as [[g|]|]; simpl.
      - rewrite check_group_spec. split; [intros H r [<- | []]; assumption | intros H; apply H; left; reflexivity].
      - split; [intros _ r [] | reflexivity].
      - split; [intros _ r [] | reflexivity]. }
    rewrite Hcc. split.
    + intros [[[H1 H2] H3] H4] r Hin.
      apply in_app_or in Hin. destruct Hin as [Hin | Hin]; [auto|].
      apply in_app_or in Hin. destruct Hin as [Hin | Hin]; [auto|].
      apply in_app_or in Hin. destruct Hin as [Hin | Hin]; auto.
    + intros H. repeat split; intros r Hin; apply H.
      * apply in_or_app; left; assumption.
      * apply in_or_app; right; apply in_or_app; left; assumption.
      * apply in_or_app; right; apply in_or_app; right; apply in_or_app; left; assumption.
      * apply in_or_app; right; apply in_or_app; right; apply in_or_app; right; assumption.
Qed.

Lemma sd_key_eqb_spec : forall a b, sd_key_eqb a b = true <-> sd_key a = sd_key b.
Proof.
  intros. unfold sd_key_eqb, sd_key. rewrite andb_true_iff, str_eqb_eq, (opt_eqb_eq _ str_eqb str_eqb_eq).
  split; [intros [-> ->]; reflexivity | intros H; inversion H; auto].
Qed.

Lemma nodup_by_spec : forall l, nodup_by sd_key_eqb l = true <-> NoDup (map sd_key l).
Proof.
  induction l as [|x l IH]; simpl.
  - split; [constructor | reflexivity].
  - rewrite andb_true_iff, negb_true_iff, IH. split.
    + intros [Hn Hd]. constructor; [|assumption].
      intros Hin. apply in_map_iff in Hin. destruct Hin as [y [Hy Hin]].
      assert (existsb (sd_key_eqb x) l = true).
      { apply existsb_exists. exists y. split; [assumption|]. apply sd_key_eqb_spec. congruence. }
      congruence.
    + intros H. inversion H as [|? ? Hn Hd]; subst. split; [|assumption].
      destruct (existsb (sd_key_eqb x) l) eqn:E; [|reflexivity]. exfalso.
      apply existsb_exists in E. destruct E as [y [Hin Hy]]. apply Hn.
      apply in_map_iff. exists y. split; [|assumption]. symmetry. apply sd_key_eqb_spec. assumption.
Qed.

Lemma validate_iff_consistent : forall p, validate_master p = true <-> consistent p.
Proof.
  intros p. unfold validate_master, validate_variants, validate_session_data, consistent.
  rewrite !andb_true_iff, negb_true_iff, forallb_forall, nodup_by_spec.
  split.
  - intros [[Hg Hcc] Hsd]. repeat split; [| |assumption].
    + intros v r Hv. apply variant_groups_spec. auto.
    + intros [v1 [v2 [H1 [H2 [Hn Hgr]]]]].
      assert (existsb has_cc_none (ma_variants p) = true) by (apply existsb_exists; eauto).
      assert (existsb has_cc_group (ma_variants p) = true) by (apply existsb_exists; eauto).
      rewrite H, H0 in Hcc. discriminate.
  - intros [Hg [Hcc Hsd]]. repeat split; [| |assumption].
    + intros v Hv. apply variant_groups_spec. intros r. apply Hg. assumption.
    + destruct (existsb has_cc_none (ma_variants p)) eqn:E1; [|reflexivity].
      destruct (existsb has_cc_group (ma_variants p)) eqn:E2; [|reflexivity].
      exfalso. apply Hcc. apply existsb_exists in E1. apply existsb_exists in E2.
      destruct E1 as [v1 [? ?]]. destruct E2 as [v2 [? ?]]. exists v1, v2. tauto.
Qed.

Lemma parse_master_consistent : forall input p, parse_master input = Ok p -> consistent p.
Proof.
  intros input p H. unfold parse_master in H.
  destruct (tag input Tables.pfx_ExtM3u); cbn [bind] in H; try discriminate.
  unfold parse_master_items in H.
  match type of H with context [mrun_lines ?s0 ?l] => destruct (mrun_lines s0 l) end; cbn [bind] in H; try discriminate.
  unfold finish_master in H.
  match type of H with (if validate_master ?q then _ else _) = _ => destruct (validate_master q) eqn:E end; [|discriminate].
  inversion H; subst. apply validate_iff_consistent. assumption.
Qed.

(* rendition lookup *)
Lemma in_oref : forall ty o r, In r (oref ty o) <-> exists g, o = Some g /\ r = (ty, g).
Proof.
  intros ty [g|] r; simpl.
  - split; [intros [<- | []]; eauto | intros [g' [H ->]]; inversion H; auto].
  - split; [tauto | intros [g' [H _]]; discriminate].
Qed.

Lemma in_refs_streaminf : forall u fr au su cc sd r,
  In r (refs (VStreamInf u fr au su cc sd)) <->
  (exists g, au = Some g /\ r = (mt_audio, g)) \/ (exists g, sd_video sd = Some g /\ r = (mt_video, g))
  \/ (exists g, su = Some g /\ r = (mt_subtitles, g)) \/ (exists g, cc = Some (CcGroup g) /\ r = (mt_cc, g)).
Proof.
  intros. simpl. rewrite !in_app_iff, !in_oref.
  assert (Hcc : In r (match cc with Some (CcGroup g) => [(mt_cc, g)] | _ => [] end)
                <-> exists g, cc = Some (CcGroup g) /\ r = (mt_cc, g)).
  { destruct cc as [[g|]|]; simpl.
    - split; [intros [<- | []]; eauto | intros [g' [H ->]]; inversion H; auto].
    - split; [tauto | intros [g' [H _]]; discriminate].
    - split; [tauto | intros [g' [H _]]; discriminate]. }
  rewrite Hcc. tauto.
Qed.

Lemma is_associated_spec : forall v m, (xm_type m <= 3)%N ->
  (is_associated v m = true <-> references v m \/ known_none_group v m).
Proof.
  intros v m Hty. unfold references, known_none_group.
  destruct v as [u sd | u fr au su cc sd].
  - simpl. rewrite andb_true_iff, N.eqb_eq, in_oref. unfold mt_video.
    destruct (sd_video sd) as [g|].
    + rewrite str_eqb_eq. split.
      * intros [H1 H2]. left. exists g. split; [reflexivity|]. congruence.
      * intros [[g' [H1 H2]] | [_ [_ []]]]. inversion H1; subst g'. inversion H2. auto.
    + split; [intros [_ H]; discriminate | intros [[g' [H _]] | [_ [_ []]]]; discriminate].
  - rewrite in_refs_streaminf. unfold is_associated, mt_audio, mt_video, mt_subtitles, mt_cc in *.
    destruct (xm_type m =? 0)%N eqn:E0; [apply N.eqb_eq in E0|apply N.eqb_neq in E0].
    { rewrite E0. destruct au as [g|]; [rewrite str_eqb_eq|]; split; intros H.
      - left. left. exists g. split; [reflexivity|]. congruence.
      - destruct H as [[[g' [H1 H2]] | [[g' [_ H2]] | [[g' [_ H2]] | [g' [_ H2]]]]] | [H _]]; try discriminate.
        inversion H1; subst. inversion H2; auto.
      - discriminate.
      - destruct H as [[[g' [H1 H2]] | [[g' [_ H2]] | [[g' [_ H2]] | [g' [_ H2]]]]] | [H _]]; discriminate. }
    destruct (xm_type m =? 1)%N eqn:E1; [apply N.eqb_eq in E1|apply N.eqb_neq in E1].
    { rewrite E1. destruct (sd_video sd) as [g|]; [rewrite str_eqb_eq|]; split; intros H.
      - left. right. left. exists g. split; [reflexivity|]. congruence.
      - destruct H as [[[g' [_ H2]] | [[g' [H1 H2]] | [[g' [_ H2]] | [g' [_ H2]]]]] | [H _]]; try discriminate.
        inversion H1; subst. inversion H2; auto.
      - discriminate.
      - destruct H as [[[g' [_ H2]] | [[g' [H1 H2]] | [[g' [_ H2]] | [g' [_ H2]]]]] | [H _]]; discriminate. }
    destruct (xm_type m =? 2)%N eqn:E2; [apply N.eqb_eq in E2|apply N.eqb_neq in E2].
    { rewrite E2. destruct su as [g|]; [rewrite str_eqb_eq|]; split; intros H.
      - left. right. right. left. exists g. split; [reflexivity|]. congruence.
      - destruct H as [[[g' [_ H2]] | [[g' [_ H2]] | [[g' [H1 H2]] | [g' [_ H2]]]]] | [H _]]; try discriminate.
        inversion H1; subst. inversion H2; auto.
      - discriminate.
      - destruct H as [[[g' [_ H2]] | [[g' [_ H2]] | [[g' [H1 H2]] | [g' [_ H2]]]]] | [H _]]; discriminate. }
    assert (E3 : xm_type m = 3%N) by lia. rewrite E3.
    destruct cc as [[g|]|]; simpl; [rewrite str_eqb_eq | rewrite str_eqb_eq |]; split; intros H.
    + left. right. right. right. exists g. split; [reflexivity|]. congruence.
    + destruct H as [[[g' [_ H2]] | [[g' [_ H2]] | [[g' [_ H2]] | [g' [H1 H2]]]]] | [_ [_ []]]]; try discriminate.
      inversion H1; subst. inversion H2; auto.
    + right. repeat split; auto.
    + destruct H as [[[g' [_ H2]] | [[g' [_ H2]] | [[g' [_ H2]] | [g' [H1 H2]]]]] | [_ [H _]]]; try discriminate.
      assumption.
    + discriminate.
    + destruct H as [[[g' [_ H2]] | [[g' [_ H2]] | [[g' [_ H2]] | [g' [H1 H2]]]]] | [_ [_ []]]]; discriminate.
Qed.
