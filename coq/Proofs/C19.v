(* Proofs for C19: coherence of the hand-written equality / ordering / hashing. *)
From hls Require Import Base Float Types EqOrd.
From hls.Generated Require Import Tables.
From Coq Require Import Lia String ZifyN ZifyBool ZifyNat.
Open Scope N_scope.

(* ---------- lists of numbers ---------- *)
Lemma nlist_eqb_eq : forall a b, nlist_eqb a b = true <-> a = b.
Proof.
  induction a as [|x a IH]; destruct b as [|y b]; simpl; try (split; congruence).
  rewrite andb_true_iff, N.eqb_eq, IH. split; [intros [-> ->]; reflexivity | intros H; inversion H; auto].
Qed.
Lemma nlist_cmp_eq : forall a b, nlist_cmp a b = Eq <-> a = b.
Proof.
  induction a as [|x a IH]; destruct b as [|y b]; simpl; try (split; congruence).
  destruct (x ?= y) eqn:E.
  - apply N.compare_eq_iff in E. subst y. rewrite IH. split; congruence.
  - split; [discriminate|]. intros H. inversion H; subst. rewrite N.compare_refl in E. discriminate.
  - split; [discriminate|]. intros H. inversion H; subst. rewrite N.compare_refl in E. discriminate.
Qed.
Lemma nlist_cmp_antisym : forall a b, nlist_cmp b a = CompOpp (nlist_cmp a b).
Proof.
  induction a as [|x a IH]; destruct b as [|y b]; simpl; try reflexivity.
  rewrite (N.compare_antisym x y). destruct (x ?= y); simpl; auto.
Qed.
Lemma nlist_cmp_trans : forall a b c, nlist_cmp a b = Lt -> nlist_cmp b c = Lt -> nlist_cmp a c = Lt.
Proof.
  induction a as [|x a IH]; destruct b as [|y b]; destruct c as [|z c]; simpl; try congruence.
  destruct (x ?= y) eqn:E1; destruct (y ?= z) eqn:E2; try congruence; intros H1 H2.
  - apply N.compare_eq_iff in E1, E2. subst. rewrite N.compare_refl. eauto.
  - apply N.compare_eq_iff in E1. subst. rewrite E2. reflexivity.
  - apply N.compare_eq_iff in E2. subst. rewrite E1. reflexivity.
  - rewrite N.compare_lt_iff in *. assert (E : x < z) by lia. apply N.compare_lt_iff in E. rewrite E. reflexivity.
Qed.

(* ---------- KeyFormatVersions ---------- *)
Definition kfv_wf (k : kfv) : Prop := (kf_len k <= List.length (kf_buf k))%nat.
Lemma kfv_obs_len : forall k, kfv_wf k -> List.length (kfv_obs k) = kf_len k.
Proof. intros k H. unfold kfv_obs. apply firstn_length_le. exact H. Qed.

(* equal iff the used parts agree: stale data behind the length is never observed *)
Theorem kfv_eq_obs : forall a b, kfv_wf a -> kfv_wf b -> (kfv_eqb a b = true <-> kfv_obs a = kfv_obs b).
Proof.
  intros a b Ha Hb. unfold kfv_eqb. rewrite andb_true_iff, Nat.eqb_eq, nlist_eqb_eq. split; [tauto|].
  intros H. split; [|assumption]. rewrite <- (kfv_obs_len a Ha), <- (kfv_obs_len b Hb), H. reflexivity.
Qed.
Theorem kfv_eq_cmp : forall a b, kfv_wf a -> kfv_wf b -> (kfv_eqb a b = true <-> kfv_cmp a b = Eq).
Proof. intros a b Ha Hb. rewrite (kfv_eq_obs a b Ha Hb). unfold kfv_cmp. symmetry. apply nlist_cmp_eq. Qed.
Theorem kfv_eq_hash : forall a b, kfv_wf a -> kfv_wf b -> kfv_eqb a b = true -> kfv_hash a = kfv_hash b.
Proof.
  intros a b Ha Hb H. apply (kfv_eq_obs a b Ha Hb) in H. unfold kfv_hash.
  rewrite <- (kfv_obs_len a Ha), <- (kfv_obs_len b Hb), H. reflexivity.
Qed.
Theorem kfv_cmp_antisym : forall a b, kfv_cmp b a = CompOpp (kfv_cmp a b).
Proof. intros. unfold kfv_cmp. apply nlist_cmp_antisym. Qed.
Theorem kfv_cmp_trans : forall a b c, kfv_cmp a b = Lt -> kfv_cmp b c = Lt -> kfv_cmp a c = Lt.
Proof. intros a b c. unfold kfv_cmp. apply nlist_cmp_trans. Qed.
Theorem kfv_eq_refl : forall a, kfv_eqb a a = true.
Proof. intros. unfold kfv_eqb. rewrite Nat.eqb_refl. apply nlist_eqb_eq. reflexivity. Qed.
(* truncation leaves stale data, which no comparison sees *)
Theorem kfv_truncate_obs : forall k n, (n <= kf_len k)%nat -> kfv_wf k -> kfv_obs (kfv_truncate k n) = firstn n (kf_buf k).
Proof.
  intros k n Hn Hw. unfold kfv_truncate. destruct (Nat.ltb_spec (kf_len k) n); [lia|]. reflexivity.
Qed.

(* ---------- float wrappers ---------- *)
Theorem float_eq_cmp : forall x y, float_eqb x y = true <-> float_cmp x y = Eq.
Proof. intros. unfold float_eqb, float_cmp. rewrite Z.eqb_eq. symmetry. apply Z.compare_eq_iff. Qed.
Theorem float_eq_refl : forall x, float_eqb x x = true.
Proof. intros. unfold float_eqb. apply Z.eqb_refl. Qed.
Theorem float_cmp_antisym : forall x y, float_cmp y x = CompOpp (float_cmp x y).
Proof. intros. unfold float_cmp. apply Z.compare_antisym. Qed.
Theorem float_cmp_trans : forall x y z, float_cmp x y = Lt -> float_cmp y z = Lt -> float_cmp x z = Lt.
Proof. intros x y z. unfold float_cmp. rewrite !Z.compare_lt_iff. lia. Qed.

(* equal floats hash identically: +0 and -0 are equal and both hash as +0; otherwise equal keys
   of finite values mean equal bit patterns *)
Definition finite_canonical (x : fval) : Prop :=
  match x with
  | FZero _ => True
  | FFin _ m e => (0 < m < 16777216)%Z /\ (-149 <= e <= 104)%Z /\ ((m < 8388608)%Z -> e = (-149)%Z)
  | _ => False
  end.
Lemma f32_bits_sign : forall x, finite_canonical x ->
  f32_bits x = (if f_is_neg x then 2147483648 else 0) + f32_bits x mod 2147483648
  /\ f32_bits x mod 2147483648 < 2147483648.
Proof.
  intros x Hx. split; [|apply N.mod_lt; lia].
  destruct x as [n|n| |n m e]; simpl in Hx; try tauto.
  - destruct n; reflexivity.
  - destruct Hx as [Hm [He Hs]]. unfold f32_bits, f_is_neg.
    destruct (8388608 <=? m)%Z eqn:E.
    + apply Z.leb_le in E.
      assert (Hb : Z.to_N (e + 150) * 8388608 + Z.to_N (m - 8388608) < 2147483648) by lia.
      destruct n; rewrite ?N.add_0_l; [|rewrite N.mod_small by lia; reflexivity].
      rewrite <- N.add_mod_idemp_l by lia. rewrite N.mod_same by lia. rewrite N.add_0_l.
      rewrite N.mod_small by lia. reflexivity.
    + apply Z.leb_gt in E.
      assert (Hb : Z.to_N m < 2147483648) by lia.
      destruct n; rewrite ?N.add_0_l; [|rewrite N.mod_small by lia; reflexivity].
      rewrite <- N.add_mod_idemp_l by lia. rewrite N.mod_same by lia. rewrite N.add_0_l.
      rewrite N.mod_small by lia. reflexivity.
Qed.
Theorem float_eq_hash : forall x y, finite_canonical x -> finite_canonical y ->
  float_eqb x y = true -> float_hash x = float_hash y.
Proof.
  intros x y Hx Hy H. unfold float_eqb in H. apply Z.eqb_eq in H. unfold float_hash. rewrite <- H.
  destruct (fkey x =? 0)%Z eqn:E; [reflexivity|]. apply Z.eqb_neq in E.
  destruct (f32_bits_sign x Hx) as [Ex Bx]. destruct (f32_bits_sign y Hy) as [Ey By].
  unfold fkey in *. rewrite Ex, Ey.
  destruct (f_is_neg x), (f_is_neg y); lia.
Qed.

(* ---------- which types have hand-written impls (regenerated from the source) ---------- *)
Local Open Scope string_scope.
Definition expected_manual : list (string * string) :=
  [ ("Eq", "Float"); ("Eq", "KeyFormatVersions"); ("Eq", "UFloat");
    ("Hash", "Float"); ("Hash", "KeyFormatVersions"); ("Hash", "UFloat");
    ("Ord", "Float"); ("Ord", "KeyFormatVersions"); ("Ord", "UFloat");
    ("PartialEq", "Error"); ("PartialEq", "Float"); ("PartialEq", "KeyFormatVersions"); ("PartialEq", "UFloat");
    ("PartialOrd", "Float"); ("PartialOrd", "KeyFormatVersions"); ("PartialOrd", "UFloat") ].
Definition pair_eqb (a b : string * string) : bool := String.eqb (fst a) (fst b) && String.eqb (snd a) (snd b).
Definition same_pairs (a b : list (string * string)) : bool :=
  forallb (fun x => existsb (pair_eqb x) b) a && forallb (fun x => existsb (pair_eqb x) a) b.
Lemma manual_impls_as_modelled : same_pairs manual_impl_table expected_manual = true.
Proof. vm_compute. reflexivity. Qed.

(* every public value type with a derived PartialEq also derives Eq, Hash, PartialOrd and Ord
   (so they are all structural and agree), except the types listed *)
Definition has (d : string) (l : list string) : bool := existsb (String.eqb d) l.
Definition derive_consistent (e : string * list string) : bool :=
  let l := snd e in
  if has "PartialEq" l then
    (has "Eq" l && has "Hash" l && has "PartialOrd" l && has "Ord" l)
    || existsb (String.eqb (fst e)) ["MediaPlaylist"; "Line"; "Tag"; "IntoIter"; "ErrorKind"]
  else true.
Lemma derives_consistent : derive_section_ok && forallb derive_consistent derive_table = true.
Proof. vm_compute. reflexivity. Qed.
