(* Lexical.v — the lexical layers of both parsers: quote/unquote, the attribute tokenizer as the
   inverse of attribute-list rendering under arbitrary padding, and the tag dispatch chain
   (read from the regenerated table). *)
From hls Require Import Base Float Lex Kinds Types Tags Line Keys Media Master.
From hls.Generated Require Import Tables.
From hls.Proofs Require Import EqFacts Build Parse MediaProps NoPanic C12.
From Coq Require Import Lia.
Open Scope N_scope.

(* ---------- quote / unquote ---------- *)
Lemma filter_id : forall A (p : A -> bool) l, forallb p l = true -> filter p l = l.
Proof.
  induction l as [|x l IH]; simpl; intros H; [reflexivity|].
  apply andb_true_iff in H. destruct H as [Hx Hl]. rewrite Hx. f_equal. auto.
Qed.
Definition clean_quoted (s : str) : bool := forallb (fun c => negb (is_bad_quoted c)) s.

Theorem unquote_quote : forall s, clean_quoted s = true -> unquote (quote s) = s.
Proof.
  intros s H. unfold quote.
  assert (Hf : filter (fun c => negb (c =? 34)) s = s).
  { apply filter_id. unfold clean_quoted in H. rewrite forallb_forall in *. intros c Hc.
    specialize (H c Hc). unfold is_bad_quoted in H. apply negb_true_iff in H.
    apply orb_false_iff in H. destruct H as [H _]. apply orb_false_iff in H. destruct H as [H _].
    rewrite H. reflexivity. }
  rewrite Hf. unfold unquote. rewrite rev_app_distr. simpl. rewrite rev_involutive.
  assert (Hany : any_char is_bad_quoted s = false).
  { unfold any_char. destruct (existsb is_bad_quoted s) eqn:E; [|reflexivity].
    apply existsb_exists in E. destruct E as [c [Hc Hb]].
    unfold clean_quoted in H. rewrite forallb_forall in H. specialize (H c Hc). rewrite Hb in H. discriminate. }
  rewrite Hany. reflexivity.
Qed.

(* ---------- the tokenizer inverts rendering ---------- *)
(* quote state after scanning a value part: None if it contains a comma outside quotes *)
Fixpoint scan (q : bool) (s : str) : option bool :=
  match s with
  | [] => Some q
  | c :: r => if c =? 34 then scan (negb q) r
              else if (c =? 44) && negb q then None else scan q r
  end.
Lemma scan_app : forall a b q, scan q (a ++ b) = match scan q a with Some q' => scan q' b | None => None end.
Proof.
  induction a as [|c a IH]; simpl; intros b q; [reflexivity|].
  destruct (c =? 34); [apply IH|]. destruct ((c =? 44) && negb q); [reflexivity | apply IH].
Qed.
Lemma span_val_end : forall s q q', scan q s = Some q' -> span_val q s = (s, None).
Proof.
  induction s as [|c s IH]; simpl; intros q q' H; [reflexivity|].
  destruct (c =? 34).
  - rewrite (IH _ _ H). reflexivity.
  - destruct ((c =? 44) && negb q); [discriminate|]. rewrite (IH _ _ H). reflexivity.
Qed.
Lemma span_val_comma : forall s rest q, scan q s = Some false -> span_val q (s ++ 44 :: rest) = (s, Some rest).
Proof.
  induction s as [|c s IH]; simpl; intros rest q H.
  - inversion H; subst. reflexivity.
  - destruct (c =? 34).
    + rewrite (IH _ _ H). reflexivity.
    + destruct ((c =? 44) && negb q); [discriminate|]. rewrite (IH _ _ H). reflexivity.
Qed.
Lemma ws_not_special : forall c, is_ws c = true -> (c =? 34) = false /\ (c =? 44) = false /\ (c =? 61) = false.
Proof.
  intros c H. repeat split; destruct (N.eqb_spec c 34); destruct (N.eqb_spec c 44); destruct (N.eqb_spec c 61);
    subst; try reflexivity; vm_compute in H; discriminate.
Qed.
Lemma scan_ws : forall w q, forallb is_ws w = true -> scan q w = Some q.
Proof.
  induction w as [|c w IH]; simpl; intros q H; [reflexivity|].
  apply andb_true_iff in H. destruct H as [Hc Hw].
  destruct (ws_not_special c Hc) as [H1 [H2 _]]. rewrite H1, H2. simpl. auto.
Qed.

Definition no_eq (s : str) : bool := forallb (fun c => negb (c =? 61)) s.
Lemma split_once_first : forall a rest, no_eq a = true -> split_once 61 (a ++ 61 :: rest) = Some (a, rest).
Proof.
  induction a as [|c a IH]; simpl; intros rest H; [reflexivity|].
  apply andb_true_iff in H. destruct H as [Hc Ha]. apply negb_true_iff in Hc. rewrite Hc.
  rewrite (IH _ Ha). reflexivity.
Qed.
Lemma no_eq_ws : forall w, forallb is_ws w = true -> no_eq w = true.
Proof.
  induction w as [|c w IH]; simpl; intros H; [reflexivity|].
  apply andb_true_iff in H. destruct H as [Hc Hw].
  destruct (ws_not_special c Hc) as [_ [_ H3]]. rewrite H3. simpl. auto.
Qed.
Lemma no_eq_app : forall a b, no_eq (a ++ b) = no_eq a && no_eq b.
Proof. intros. unfold no_eq. apply forallb_app. Qed.

Record entry := { e_p1 : str; e_k : str; e_p2 : str; e_p3 : str; e_v : str; e_p4 : str }.
Definition entry_ok (e : entry) : Prop :=
  forallb is_ws (e_p1 e) = true /\ forallb is_ws (e_p2 e) = true /\ forallb is_ws (e_p3 e) = true
  /\ forallb is_ws (e_p4 e) = true
  /\ e_k e <> [] /\ trim (e_k e) = e_k e /\ no_eq (e_k e) = true
  /\ trim (e_v e) = e_v e /\ scan false (e_v e) = Some false.
Definition render_entry (e : entry) : str :=
  e_p1 e ++ e_k e ++ e_p2 e ++ 61 :: e_p3 e ++ e_v e ++ e_p4 e.
Fixpoint render_attrs (l : list entry) : str :=
  match l with
  | [] => []
  | [e] => render_entry e
  | e :: r => render_entry e ++ 44 :: render_attrs r
  end.

Lemma byte_len_app : forall a b, byte_len (a ++ b) = byte_len a + byte_len b.
Proof. induction a as [|c a IH]; simpl; intros; [reflexivity|]. rewrite IH. lia. Qed.
Lemma utf8_len_pos : forall c, 1 <= utf8_len c.
Proof. intros c. unfold utf8_len. destruct (c <? 128); [lia|]. destruct (c <? 2048); [lia|]. destruct (c <? 65536); lia. Qed.
Lemma byte_len_nonempty : forall s, s <> [] -> 1 <= byte_len s.
Proof. intros [|c s] H; [congruence|]. simpl. pose proof (utf8_len_pos c). lia. Qed.

Lemma byte_len_ge_app_l : forall a b, byte_len a <= byte_len (a ++ b).
Proof. intros. rewrite byte_len_app. lia. Qed.
Lemma byte_len_ge_app_r : forall a b, byte_len b <= byte_len (a ++ b).
Proof. intros. rewrite byte_len_app. lia. Qed.
Lemma entry_long : forall e tail, entry_ok e -> (byte_len (render_entry e ++ tail) <? 2) = false.
Proof.
  intros e tail [_ [_ [_ [_ [Hk _]]]]]. apply N.ltb_ge. unfold render_entry.
  pose proof (byte_len_nonempty _ Hk) as Hk1.
  remember (e_p3 e ++ e_v e ++ e_p4 e) as y.
  assert (E : (e_p1 e ++ e_k e ++ e_p2 e ++ 61 :: y) ++ tail = e_p1 e ++ (e_k e ++ (e_p2 e ++ (61 :: (y ++ tail)))))
    by (rewrite <- !app_assoc; reflexivity).
  rewrite E. rewrite !byte_len_app. cbn [byte_len].
  assert (H61 : utf8_len 61 = 1) by reflexivity. rewrite H61. lia.
Qed.

Lemma pairs_last : forall e f, entry_ok e -> pairs_fuel (S f) (render_entry e) = [(e_k e, e_v e)].
Proof.
  intros e f Hok. cbn [pairs_fuel].
  pose proof (entry_long e [] Hok) as Hl. rewrite app_nil_r in Hl. rewrite Hl.
  destruct Hok as [H1 [H2 [H3 [H4 [Hk [Htk [Hne [Htv Hsc]]]]]]]].
  unfold render_entry.
  replace (e_p1 e ++ e_k e ++ e_p2 e ++ 61 :: e_p3 e ++ e_v e ++ e_p4 e)
    with ((e_p1 e ++ e_k e ++ e_p2 e) ++ 61 :: (e_p3 e ++ e_v e ++ e_p4 e)) by (rewrite <- !app_assoc; reflexivity).
  rewrite split_once_first
    by (rewrite !no_eq_app, (no_eq_ws _ H1), (no_eq_ws _ H2), Hne; reflexivity).
  assert (Hscan : scan false (e_p3 e ++ e_v e ++ e_p4 e) = Some false).
  { rewrite scan_app, (scan_ws _ _ H3), scan_app, Hsc. apply scan_ws. assumption. }
  rewrite (span_val_end _ _ _ Hscan).
  rewrite (trim_pad _ _ _ H1 H2), (trim_pad _ _ _ H3 H4), Htk, Htv. reflexivity.
Qed.

Lemma pairs_cons : forall e f rest, entry_ok e ->
  pairs_fuel (S f) (render_entry e ++ 44 :: rest) = (e_k e, e_v e) :: pairs_fuel f rest.
Proof.
  intros e f rest Hok. cbn [pairs_fuel].
  rewrite (entry_long e (44 :: rest) Hok).
  destruct Hok as [H1 [H2 [H3 [H4 [Hk [Htk [Hne [Htv Hsc]]]]]]]].
  unfold render_entry.
  replace ((e_p1 e ++ e_k e ++ e_p2 e ++ 61 :: e_p3 e ++ e_v e ++ e_p4 e) ++ 44 :: rest)
    with ((e_p1 e ++ e_k e ++ e_p2 e) ++ 61 :: ((e_p3 e ++ e_v e ++ e_p4 e) ++ 44 :: rest))
    by (rewrite <- !app_assoc; simpl; rewrite <- !app_assoc; reflexivity).
  rewrite split_once_first
    by (rewrite !no_eq_app, (no_eq_ws _ H1), (no_eq_ws _ H2), Hne; reflexivity).
  assert (Hscan : scan false (e_p3 e ++ e_v e ++ e_p4 e) = Some false).
  { rewrite scan_app, (scan_ws _ _ H3), scan_app, Hsc. apply scan_ws. assumption. }
  rewrite (span_val_comma _ _ _ Hscan).
  rewrite (trim_pad _ _ _ H1 H2), (trim_pad _ _ _ H3 H4), Htk, Htv. reflexivity.
Qed.

Theorem tokenizer_inverts_render : forall l, Forall entry_ok l ->
  attr_pairs (render_attrs l) = map (fun e => (e_k e, e_v e)) l.
Proof.
  intros l Hall. unfold attr_pairs.
  assert (G : forall f, (List.length (render_attrs l) < f)%nat ->
                        pairs_fuel f (render_attrs l) = map (fun e => (e_k e, e_v e)) l).
  { induction Hall as [|e r He Hr IH]; intros f Hf.
    - destruct f; [inversion Hf|]. reflexivity.
    - destruct f; [inversion Hf|]. destruct r as [|e2 r'].
      + simpl. apply pairs_last. assumption.
      + change (render_attrs (e :: e2 :: r')) with (render_entry e ++ 44 :: render_attrs (e2 :: r')) in *.
        rewrite pairs_cons by assumption. cbn [map]. f_equal. apply IH.
        rewrite app_length in Hf. cbn [List.length] in Hf. lia. }
  apply G. lia.
Qed.

(* ---------- tag dispatch ---------- *)
Definition incomparable (p q : str) : bool := negb (starts_with p q) && negb (starts_with q p).

Lemma starts_with_app_false : forall p q rest,
  starts_with p q = false -> starts_with q p = false -> starts_with p (q ++ rest) = false.
Proof.
  induction p as [|x p IH]; intros q rest H1 H2; simpl in *; [discriminate|].
  destruct q as [|y q]; simpl in *; [discriminate|].
  destruct (x =? y) eqn:E; simpl in *.
  - apply N.eqb_eq in E. subst y. rewrite N.eqb_refl in H2. simpl in H2. apply IH; assumption.
  - reflexivity.
Qed.
Lemma starts_with_refl_app : forall p rest, starts_with p (p ++ rest) = true.
Proof. induction p as [|x p IH]; simpl; intros; [reflexivity|]. rewrite N.eqb_refl. simpl. apply IH. Qed.
Lemma str_eqb_app_false : forall p q rest,
  starts_with p q = false -> starts_with q p = false -> str_eqb (q ++ rest) p = false.
Proof.
  intros p q. revert p. induction q as [|y q IH]; intros p rest H1 H2; simpl in *.
  - destruct p; simpl in *; discriminate.
  - destruct p as [|x p]; simpl in *; [reflexivity|].
    rewrite N.eqb_sym. destruct (x =? y) eqn:E; simpl in *; [|reflexivity].
    apply N.eqb_eq in E. subst. rewrite N.eqb_refl in H2. simpl in H2. apply IH; assumption.
Qed.

(* every entry before position i is incomparable with the prefix at position i *)
Fixpoint earlier_clear (tbl : list (bool * str * kind)) (p : str) : bool :=
  match tbl with
  | [] => true
  | (_, q, _) :: r => incomparable q p && earlier_clear r p
  end.
Fixpoint table_ok (done todo : list (bool * str * kind)) : bool :=
  match todo with
  | [] => true
  | (exact, p, k) :: r => (exact || earlier_clear done p) && table_ok (done ++ [(exact, p, k)]) r
  end.

Lemma classify_skip : forall done p rest tail,
  earlier_clear done p = true -> classify_in (done ++ tail) (p ++ rest) = classify_in tail (p ++ rest).
Proof.
  induction done as [|[[ex q] k] done IH]; simpl; intros p rest tail H; [reflexivity|].
  apply andb_true_iff in H. destruct H as [Hi Hc]. unfold incomparable in Hi.
  apply andb_true_iff in Hi. destruct Hi as [Ha Hb]. apply negb_true_iff in Ha, Hb.
  destruct ex.
  - rewrite (str_eqb_app_false q p rest Ha Hb). apply IH. assumption.
  - rewrite (starts_with_app_false q p rest Ha Hb). apply IH. assumption.
Qed.

Lemma table_ok_classify : forall todo done p k rest,
  table_ok done todo = true -> In (false, p, k) todo ->
  classify_in (done ++ todo) (p ++ rest) = k.
Proof.
  induction todo as [|[[ex q] k'] todo IH]; simpl; intros done p k rest Hok Hin; [tauto|].
  apply andb_true_iff in Hok. destruct Hok as [Hhead Htail].
  destruct Hin as [Heq | Hin].
  - inversion Heq; subst. simpl in Hhead.
    rewrite classify_skip by assumption. simpl. rewrite starts_with_refl_app. reflexivity.
  - specialize (IH (done ++ [(ex, q, k')]) p k rest Htail Hin).
    rewrite <- app_assoc in IH. exact IH.
Qed.

Lemma dispatch_table_ok : table_ok [] dispatch_table = true.
Proof. vm_compute. reflexivity. Qed.

Theorem dispatch_by_prefix : forall p k rest, In (false, p, k) dispatch_table ->
  classify (p ++ rest) = k.
Proof.
  intros p k rest Hin. unfold classify.
  exact (table_ok_classify dispatch_table [] p k rest dispatch_table_ok Hin).
Qed.

(* the attribute-less tags are recognised exactly, and an extension of their name is an
   unknown tag (except that DISCONTINUITY-SEQUENCE extends DISCONTINUITY) *)
Theorem dispatch_flags :
  classify pfx_ExtXEndList = K_ExtXEndList /\ classify pfx_ExtXIFramesOnly = K_ExtXIFramesOnly
  /\ classify pfx_ExtXIndependentSegments = K_ExtXIndependentSegments
  /\ classify pfx_ExtXDiscontinuity = K_ExtXDiscontinuity.
Proof. vm_compute. repeat split. Qed.

Fixpoint none_extends (tbl : list (bool * str * kind)) (p : str) : bool :=
  match tbl with
  | [] => true
  | (ex, q, _) :: r =>
      (if ex then negb (starts_with p q) || str_eqb p q else incomparable q p) && none_extends r p
  end.
Lemma starts_with_longer : forall p q c rest, starts_with p q = false -> str_eqb (p ++ c :: rest) q = false.
Proof.
  induction p as [|x p IH]; simpl; intros q c rest H; [discriminate|].
  destruct q as [|y q]; [reflexivity|]. simpl in *.
  destruct (x =? y); simpl in *; [apply IH; assumption | reflexivity].
Qed.
Lemma classify_extension_unknown : forall tbl p c rest,
  none_extends tbl p = true -> classify_in tbl (p ++ c :: rest) = K_Unknown.
Proof.
  induction tbl as [|[[ex q] k] tbl IH]; simpl; intros p c rest H; [reflexivity|].
  apply andb_true_iff in H. destruct H as [H Ht].
  assert (Hno : (if ex then str_eqb (p ++ c :: rest) q else starts_with q (p ++ c :: rest)) = false).
  { destruct ex.
    - apply orb_true_iff in H. destruct H as [H | H].
      + apply negb_true_iff in H. apply starts_with_longer. assumption.
      + apply str_eqb_eq in H. subst q.
        destruct (str_eqb (p ++ c :: rest) p) eqn:E; [|reflexivity].
        apply str_eqb_eq in E. apply (f_equal (@List.length char)) in E. rewrite app_length in E. simpl in E. lia.
    - unfold incomparable in H. apply andb_true_iff in H. destruct H as [Ha Hb].
      apply negb_true_iff in Ha, Hb. apply starts_with_app_false; assumption. }
  rewrite Hno. apply IH. assumption.
Qed.

Theorem flag_extension_unknown : forall c rest,
  classify (pfx_ExtXEndList ++ c :: rest) = K_Unknown
  /\ classify (pfx_ExtXIFramesOnly ++ c :: rest) = K_Unknown
  /\ classify (pfx_ExtXIndependentSegments ++ c :: rest) = K_Unknown.
Proof.
  intros. unfold classify. repeat split; apply classify_extension_unknown; vm_compute; reflexivity.
Qed.

(* ---------- names that only look like known tags ---------- *)
(* a value tag's name WITHOUT its colon (e.g. a bare `#EXT-X-KEY`) is an unknown tag: checked for every prefix entry of the
   regenerated dispatch chain *)
Definition name_without_colon_unknown : bool :=
  forallb (fun e : bool * str * kind =>
             let '(exact, p, _) := e in
             if exact then true
             else match rev p with
                  | 58 :: r => match classify (rev r) with K_Unknown => true | _ => false end
                  | _ => false                      (* every prefix-matched tag name ends in a colon *)
                  end) dispatch_table.
Lemma bare_names_unknown : name_without_colon_unknown = true.
Proof. vm_compute. reflexivity. Qed.
(* a value tag's name with a longer name (an extra letter before the colon) is an unknown tag *)
Definition longer_name_unknown : bool :=
  forallb (fun e : bool * str * kind =>
             let '(exact, p, _) := e in
             if exact then true
             else match rev p with
                  | 58 :: r => match classify (rev r ++ [83; 58; 49]) with K_Unknown => true | _ => false end    (* NAME + "S:1" *)
                  | _ => false
                  end) dispatch_table.
Lemma longer_names_unknown : longer_name_unknown = true.
Proof. vm_compute. reflexivity. Qed.
