(* Assembly.v — segment assembly: each segment carries exactly what the tags between the previous
   URI line and its own URI line specify (the last instance of each tag). *)
From hls Require Import Base Float Lex Kinds Types Tags Line Keys Media.
From hls.Generated Require Import Tables.
From hls.Proofs Require Import EqFacts Build Parse MediaProps.
Open Scope N_scope.

(* the specification: split the items at URI lines *)
Fixpoint groups (ls : list line) (cur : list tagv) : list (list tagv * str) :=
  match ls with
  | [] => []
  | LTag t :: r => groups r (cur ++ [t])
  | LComment :: r => groups r cur
  | LUri u :: r => (cur, u) :: groups r []
  end.
Definition last_some {A} (f : tagv -> option A) (g : list tagv) : option A :=
  fold_left (fun acc t => match f t with Some x => Some x | None => acc end) g None.
Definition get_inf (t : tagv) := match t with TInf i => Some i | _ => None end.
Definition get_range (t : tagv) := match t with TByteRange r => Some r | _ => None end.
Definition get_pdt (t : tagv) := match t with TPdt p => Some p | _ => None end.
Definition get_daterange (t : tagv) := match t with TDateRange d => Some d | _ => None end.
Definition get_map (t : tagv) := match t with TMap m => Some (map_uri m, map_range m) | _ => None end.
Definition is_disc (t : tagv) := match t with TDiscontinuity => true | _ => false end.

Definition acc_matches (a : seg_acc) (cur : list tagv) : Prop :=
  sa_inf a = last_some get_inf cur /\ sa_range a = last_some get_range cur
  /\ sa_pdt a = last_some get_pdt cur /\ sa_daterange a = last_some get_daterange cur
  /\ omap (fun m => (map_uri m, map_range m)) (sa_map a) = last_some get_map cur
  /\ sa_disc a = existsb is_disc cur.

Definition seg_matches (sg : Segment) (grp : list tagv * str) : Prop :=
  sg_uri sg = snd grp /\ Some (sg_inf sg) = last_some get_inf (fst grp)
  /\ sg_range sg = last_some get_range (fst grp) /\ sg_pdt sg = last_some get_pdt (fst grp)
  /\ sg_daterange sg = last_some get_daterange (fst grp)
  /\ omap (fun m => (map_uri m, map_range m)) (sg_map sg) = last_some get_map (fst grp)
  /\ sg_disc sg = existsb is_disc (fst grp).

Lemma last_some_snoc : forall A (f : tagv -> option A) g t,
  last_some f (g ++ [t]) = match f t with Some x => Some x | None => last_some f g end.
Proof. intros. unfold last_some. rewrite fold_left_app. reflexivity. Qed.
Lemma existsb_snoc : forall A (p : A -> bool) l x, existsb p (l ++ [x]) = existsb p l || p x.
Proof. intros. rewrite existsb_app. simpl. rewrite orb_false_r. reflexivity. Qed.

Lemma step_tag_matches : forall s t s' cur, step s (LTag t) = Ok s' ->
  acc_matches (ps_seg s) cur -> acc_matches (ps_seg s') (cur ++ [t]) /\ ps_segs s' = ps_segs s.
Proof.
  intros s t s' cur H [Hi [Hr [Hp [Hd [Hm Hc]]]]]. unfold step in H.
  destruct (in_kinds (kind_of t) media_rejects); [discriminate|].
  unfold acc_matches. rewrite !last_some_snoc, existsb_snoc.
  destruct t; cbn [step_tag set_seg set_b] in H;
    repeat match type of H with context [if ?c then _ else _] => destruct c end;
    try discriminate; inversion H; subst; clear H; simpl;
    rewrite ?orb_false_r, ?orb_true_r; repeat split; auto.
Qed.

Lemma assembly_gen : forall ls s s' cur, run_lines s (map Ok ls) = Ok s' ->
  acc_matches (ps_seg s) cur ->
  exists new, rev (ps_segs s') = rev (ps_segs s) ++ new /\ Forall2 seg_matches new (groups ls cur).
Proof.
  induction ls as [|l ls IH]; simpl; intros s s' cur H Hacc.
  - inversion H; subst. exists []. rewrite app_nil_r. split; [reflexivity | constructor].
  - apply bind_ok in H. destruct H as [s1 [Hs H]].
    destruct l as [t| |u].
    + destruct (step_tag_matches _ _ _ _ Hs Hacc) as [Hacc' Hsegs].
      destruct (IH _ _ _ H Hacc') as [new [Hrev HF]]. exists new. rewrite Hsegs in Hrev. tauto.
    + inversion Hs; subst s1. eauto.
    + unfold step in Hs. destruct (sa_inf (ps_seg s)) as [i|] eqn:Ei; cbn [of_opt bind] in Hs; [|discriminate].
      inversion Hs; subst s1. clear Hs.
      assert (Hempty : acc_matches seg_empty []) by (repeat split).
      destruct (IH _ _ [] H Hempty) as [new [Hrev HF]]. cbn [ps_segs] in Hrev.
      eexists (_ :: new). split.
      * rewrite Hrev. simpl. rewrite <- app_assoc. reflexivity.
      * constructor; [|assumption].
        destruct Hacc as [Hi [Hr [Hp [Hd [Hm Hc]]]]]. unfold seg_matches. simpl.
        rewrite <- Hi, <- Hr, <- Hp, <- Hd, <- Hm, <- Hc, Ei. repeat split.
Qed.

Theorem assembly : forall b0 ls s, run_lines (init_state b0) (map Ok ls) = Ok s ->
  Forall2 seg_matches (rev (ps_segs s)) (groups ls []).
Proof.
  intros b0 ls s H.
  destruct (assembly_gen ls _ _ [] H) as [new [Hrev HF]]; [repeat split|].
  simpl in Hrev. rewrite Hrev. assumption.
Qed.
