(* Proofs for C17: every hand-written into_owned() rebuilds each declared field from the field
   of the same name in the same variant.  The table is regenerated from the source on every run. *)
From hls Require Import Base.
From hls.Generated Require Import Tables.
From Coq Require Import String.
Local Open Scope string_scope.

Definition row := (string * string * string * string * list string)%type.

(* a row is the identity on its field: same variant built, the field copied from itself;
   the only source-less fields are unit variants and the PhantomData marker `_p` *)
Definition row_identity (r : row) : bool :=
  let '(ty, sv, dv, tgt, srcs) := r in
  String.eqb sv dv &&
  match srcs with
  | [s] => String.eqb s tgt
  | [] => String.eqb tgt "" || String.eqb tgt "_p"
  | _ => false
  end.

Definition key3 (a : string * string * string) (b : string * string * string) : bool :=
  let '(a1, a2, a3) := a in let '(b1, b2, b3) := b in String.eqb a1 b1 && String.eqb a2 b2 && String.eqb a3 b3.
Definition row_key (r : row) : string * string * string := let '(ty, sv, _, tgt, _) := r in (ty, sv, tgt).
Definition count_rows (k : string * string * string) (rows : list row) : nat :=
  List.length (filter (fun r => key3 (row_key r) k) rows).

(* every declared field is rebuilt exactly once, and nothing else is *)
Definition coverage_ok (rows : list row) (decl : list (string * string * string)) : bool :=
  forallb (fun d => Nat.eqb (count_rows d rows) 1) decl
  && forallb (fun r => existsb (key3 (row_key r)) decl) rows.

Definition table_ok : bool :=
  into_owned_section_ok && forallb row_identity into_owned_table && coverage_ok into_owned_table declared_fields.

Lemma into_owned_table_ok : table_ok = true.
Proof. vm_compute. reflexivity. Qed.

(* what the table check means, on an abstract value = variant name + field contents *)
Record value := { v_variant : string; v_field : string -> option N }.
Definition find_row (rows : list row) (ty sv f : string) : option row :=
  List.find (fun r => key3 (row_key r) (ty, sv, f)) rows.
Definition rebuild_field (rows : list row) (ty : string) (v : value) (f : string) : option N :=
  match find_row rows ty (v_variant v) f with
  | Some (_, _, _, _, [s]) => v_field v s
  | _ => None
  end.
Definition rebuild_variant (rows : list row) (ty : string) (v : value) : string :=
  match List.find (fun r => let '(t, sv, _, _, _) := r in String.eqb t ty && String.eqb sv (v_variant v)) rows with
  | Some (_, _, dv, _, _) => dv
  | None => v_variant v
  end.

Lemma key3_eq : forall a b, key3 a b = true -> a = b.
Proof.
  intros [[a1 a2] a3] [[b1 b2] b3] H. simpl in H.
  apply andb_prop in H. destruct H as [H H3]. apply andb_prop in H. destruct H as [H1 H2].
  apply String.eqb_eq in H1, H2, H3. congruence.
Qed.

Theorem identity_table_rebuilds : forall rows ty v f s,
  forallb row_identity rows = true ->
  find_row rows ty (v_variant v) f = Some (ty, v_variant v, v_variant v, f, [s]) ->
  rebuild_field rows ty v f = v_field v f.
Proof.
  intros rows ty v f s Hid Hf. unfold rebuild_field. rewrite Hf.
  unfold find_row in Hf. apply List.find_some in Hf. destruct Hf as [Hin _].
  rewrite forallb_forall in Hid. specialize (Hid _ Hin). simpl in Hid.
  apply andb_prop in Hid. destruct Hid as [_ Hs]. apply String.eqb_eq in Hs. subst s. reflexivity.
Qed.

Theorem identity_table_variant : forall rows ty v,
  forallb row_identity rows = true -> rebuild_variant rows ty v = v_variant v.
Proof.
  intros rows ty v Hid. unfold rebuild_variant.
  match goal with |- match ?x with _ => _ end = _ => destruct x as [[[[[t sv] dv] tgt] srcs]|] eqn:E end; [|reflexivity].
  apply List.find_some in E. destruct E as [Hin Hk].
  rewrite forallb_forall in Hid. specialize (Hid _ Hin). simpl in Hid.
  apply andb_prop in Hid. destruct Hid as [Hv _]. apply String.eqb_eq in Hv.
  apply andb_prop in Hk. destruct Hk as [_ Hsv]. apply String.eqb_eq in Hsv. congruence.
Qed.
