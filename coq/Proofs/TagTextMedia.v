(* TagTextMedia.v — EXT-X-MEDIA written and read back. *)
From hls Require Import Base Float Lex Kinds Types Tags Line Keys Media Master.
From hls.Generated Require Import Tables.
From hls.Proofs Require Import EqFacts C16 C12 Lexical Values TextLines AttrText TagText.
From Coq Require Import Lia ZifyN ZifyNat.
Open Scope N_scope.

(* ================= EXT-X-MEDIA ================= *)
Definition xa t u g l a n d au f i c ch : xm_acc :=
  {| ma_type := t; ma_uri := u; ma_group := g; ma_lang := l; ma_assoc := a; ma_name := n;
     ma_default := d; ma_autoselect := au; ma_forced := f; ma_instream := i; ma_chars := c; ma_channels := ch |}.
Definition bopt (b : bool) : option bool := if b then Some true else None.
Definition xm_of (m : Media) : xm_acc :=
  xa (Some (xm_type m)) (xm_uri m) (Some (xm_group m)) (xm_lang m) (xm_assoc m) (Some (xm_name m))
     (bopt (xm_default m)) (bopt (xm_autoselect m)) (bopt (xm_forced m))
     (xm_instream m) (xm_chars m) (xm_channels m).
Definition wf_xmedia (m : Media) : bool :=
  (xm_type m <? 4) && oclean (xm_uri m) && clean_quoted (xm_group m) && oclean (xm_lang m)
  && oclean (xm_assoc m) && clean_quoted (xm_name m)
  && match xm_instream m with Some i => i <? 67 | None => true end
  && oclean (xm_chars m)
  && match xm_channels m with Some c => ch_number c <? two64 | None => true end
  && xm_validate (xm_of m).
Definition xm_kvs (m : Media) : list kv :=
  [(s_TYPE, enum_print enum_MediaType (xm_type m))]
  ++ okv (xm_uri m) (fun u => (s_URI, quote u))
  ++ [(s_GROUP_ID, quote (xm_group m))]
  ++ okv (xm_lang m) (fun u => (s_LANGUAGE, quote u))
  ++ okv (xm_assoc m) (fun u => (s_ASSOC_LANGUAGE, quote u))
  ++ [(s_NAME, quote (xm_name m))]
  ++ bkv (xm_default m) (s_DEFAULT, s_YES)
  ++ bkv (xm_autoselect m) (s_AUTOSELECT, s_YES)
  ++ bkv (xm_forced m) (s_FORCED, s_YES)
  ++ okv (xm_instream m) (fun i => (s_INSTREAM_ID, quote (enum_print enum_InStreamId i)))
  ++ okv (xm_chars m) (fun u => (s_CHARACTERISTICS, quote u))
  ++ okv (xm_channels m) (fun c => (s_CHANNELS, quote (print_channels c))).
Lemma print_xmedia_kvs : forall m, print_xmedia m = pfx_ExtXMedia ++ render_kvs (xm_kvs m).
Proof.
  intros m. unfold print_xmedia, xm_kvs, render_kvs. cbn [app].
  rewrite render_kv_app.
  repeat (rewrite render_tail_app || rewrite render_tail_cons).
  rewrite !render_tail_okv, !render_tail_bkv.
  rewrite <- !app_assoc. reflexivity.
Qed.

Ltac xm_step :=
  unfold xm_attr;
  cbn [str_eqb s_TYPE s_URI s_GROUP_ID s_LANGUAGE s_ASSOC_LANGUAGE s_NAME s_DEFAULT s_AUTOSELECT s_FORCED
       s_INSTREAM_ID s_CHARACTERISTICS s_CHANNELS N.eqb Pos.eqb andb];
  cbn [xa ma_type ma_uri ma_group ma_lang ma_assoc ma_name ma_default ma_autoselect ma_forced ma_instream
       ma_chars ma_channels].
Ltac ochunk o H :=
  destruct o as [x|]; cbn [okv fold_res]; [|reflexivity]; xm_step; cbn [oclean] in H;
  rewrite ?(unquote_quote _ H); reflexivity.

Section XmChunks.
Variables (t : option N) (u g l a n : option str) (d au f : option bool) (i : option N) (c : option str)
          (ch : option Channels).
Lemma chunk_type : forall x, x < 4 ->
  fold_res xm_attr [(s_TYPE, enum_print enum_MediaType x)] (xa None u g l a n d au f i c ch)
  = Ok (xa (Some x) u g l a n d au f i c ch).
Proof.
  intros x Hx. cbn [fold_res]. xm_step.
  rewrite (enum_roundtrip_N enum_MediaType x) by (try apply enum_tables_ok; exact Hx). reflexivity.
Qed.
Lemma chunk_uri : forall o, oclean o = true ->
  fold_res xm_attr (okv o (fun s => (s_URI, quote s))) (xa t None g l a n d au f i c ch)
  = Ok (xa t o g l a n d au f i c ch).
Proof. intros o H. ochunk o H. Qed.
Lemma chunk_group : forall s, clean_quoted s = true ->
  fold_res xm_attr [(s_GROUP_ID, quote s)] (xa t u None l a n d au f i c ch)
  = Ok (xa t u (Some s) l a n d au f i c ch).
Proof. intros s H. cbn [fold_res]. xm_step. rewrite (unquote_quote _ H). reflexivity. Qed.
Lemma chunk_lang : forall o, oclean o = true ->
  fold_res xm_attr (okv o (fun s => (s_LANGUAGE, quote s))) (xa t u g None a n d au f i c ch)
  = Ok (xa t u g o a n d au f i c ch).
Proof. intros o H. ochunk o H. Qed.
Lemma chunk_assoc : forall o, oclean o = true ->
  fold_res xm_attr (okv o (fun s => (s_ASSOC_LANGUAGE, quote s))) (xa t u g l None n d au f i c ch)
  = Ok (xa t u g l o n d au f i c ch).
Proof. intros o H. ochunk o H. Qed.
Lemma chunk_name : forall s, clean_quoted s = true ->
  fold_res xm_attr [(s_NAME, quote s)] (xa t u g l a None d au f i c ch)
  = Ok (xa t u g l a (Some s) d au f i c ch).
Proof. intros s H. cbn [fold_res]. xm_step. rewrite (unquote_quote _ H). reflexivity. Qed.
Lemma chunk_default : forall b,
  fold_res xm_attr (bkv b (s_DEFAULT, s_YES)) (xa t u g l a n None au f i c ch)
  = Ok (xa t u g l a n (bopt b) au f i c ch).
Proof. intros [|]; reflexivity. Qed.
Lemma chunk_autoselect : forall b,
  fold_res xm_attr (bkv b (s_AUTOSELECT, s_YES)) (xa t u g l a n d None f i c ch)
  = Ok (xa t u g l a n d (bopt b) f i c ch).
Proof. intros [|]; reflexivity. Qed.
Lemma chunk_forced : forall b,
  fold_res xm_attr (bkv b (s_FORCED, s_YES)) (xa t u g l a n d au None i c ch)
  = Ok (xa t u g l a n d au (bopt b) i c ch).
Proof. intros [|]; reflexivity. Qed.
Lemma chunk_instream : forall o, match o with Some x => x <? 67 | None => true end = true ->
  fold_res xm_attr (okv o (fun x => (s_INSTREAM_ID, quote (enum_print enum_InStreamId x)))) (xa t u g l a n d au f None c ch)
  = Ok (xa t u g l a n d au f o c ch).
Proof.
  intros [x|] H; cbn [okv fold_res]; [|reflexivity]. xm_step. apply N.ltb_lt in H.
  rewrite unquote_quote by (apply plain_clean, enum_print_plain, enum_tables_plain).
  rewrite (enum_roundtrip_N enum_InStreamId x) by (try apply enum_tables_ok; exact H). reflexivity.
Qed.
Lemma chunk_chars : forall o, oclean o = true ->
  fold_res xm_attr (okv o (fun s => (s_CHARACTERISTICS, quote s))) (xa t u g l a n d au f i None ch)
  = Ok (xa t u g l a n d au f i o ch).
Proof. intros o H. ochunk o H. Qed.
Lemma print_channels_plain : forall x, plain (print_channels x) = true.
Proof. intros [n0 j]. unfold print_channels. cbn [ch_number ch_joc]. rewrite plain_app, print_uint_plain. destruct j; reflexivity. Qed.
Lemma chunk_channels : forall o, match o with Some x => ch_number x <? two64 | None => true end = true ->
  fold_res xm_attr (okv o (fun x => (s_CHANNELS, quote (print_channels x)))) (xa t u g l a n d au f i c None)
  = Ok (xa t u g l a n d au f i c o).
Proof.
  intros [x|] H; cbn [okv fold_res]; [|reflexivity]. xm_step. apply N.ltb_lt in H.
  rewrite unquote_quote by (apply plain_clean, print_channels_plain).
  rewrite (channels_roundtrip x H). reflexivity.
Qed.
End XmChunks.

Lemma xm_kvs_fine : forall m, wf_xmedia m = true -> Forall kv_fine (xm_kvs m).
Proof.
  intros m H. unfold wf_xmedia in H.
  repeat (apply andb_true_iff in H; let H2 := fresh "W" in destruct H as [H H2]).
  apply N.ltb_lt in H. unfold xm_kvs.
  assert (Ho : forall k o, key_ok k = true -> oclean o = true -> Forall kv_fine (okv o (fun s => (k, quote s)))).
  { intros k [s|] Hk Hc; cbn [okv]; constructor; [apply fine_quote; assumption | constructor]. }
  assert (Hb : forall k b, key_ok k = true -> Forall kv_fine (bkv b (k, s_YES))).
  { intros k [|] Hk; cbn [bkv]; constructor; [apply fine_plain; [exact Hk | reflexivity | discriminate] | constructor]. }
  repeat (apply Forall_app; split); try (apply Ho; [reflexivity | assumption]); try (apply Hb; reflexivity).
  - constructor; [|constructor]. apply fine_plain; [reflexivity | apply enum_print_plain, enum_tables_plain |].
    apply enum_print_nonempty; [apply enum_tables_nonempty | exact H].
  - constructor; [apply fine_quote; [reflexivity | assumption] | constructor].
  - constructor; [apply fine_quote; [reflexivity | assumption] | constructor].
  - destruct (xm_instream m) as [i|]; cbn [okv]; constructor; [|constructor].
    apply fine_quote; [reflexivity | apply plain_clean, enum_print_plain, enum_tables_plain].
  - destruct (xm_channels m) as [c|]; cbn [okv]; constructor; [|constructor].
    apply fine_quote; [reflexivity | apply plain_clean, print_channels_plain].
Qed.

Lemma xm_build_of : forall m, xm_validate (xm_of m) = true -> xm_build (xm_of m) = Ok m.
Proof.
  intros m H. unfold xm_build. rewrite H. destruct m as [t u g l a n d au f i c ch].
  unfold xm_of. cbn [xa xm_type xm_uri xm_group xm_lang xm_assoc xm_name xm_default xm_autoselect xm_forced
    xm_instream xm_chars xm_channels ma_type ma_uri ma_group ma_lang ma_assoc ma_name ma_default ma_autoselect
    ma_forced ma_instream ma_chars ma_channels of_opt bind].
  destruct d, au, f; reflexivity.
Qed.

Theorem xmedia_text : forall m, wf_xmedia m = true ->
  parse_xmedia (print_xmedia m) = Ok m /\ good_line (print_xmedia m) = true.
Proof.
  intros m H. pose proof (xm_kvs_fine m H) as Hf.
  assert (Hne : xm_kvs m <> []) by (unfold xm_kvs; discriminate).
  rewrite print_xmedia_kvs. split; [|apply printed_line_good; try assumption; pfx_ok].
  unfold parse_xmedia.
  destruct (tag_attrs pfx_ExtXMedia (xm_kvs m) ltac:(pfx_ok) ltac:(pfx_ok) Hf Hne) as [E1 E2].
  rewrite E1. cbn [bind]. rewrite E2. clear E1 E2 Hf Hne.
  unfold wf_xmedia in H.
  repeat (apply andb_true_iff in H; let H2 := fresh "W" in destruct H as [H H2]).
  apply N.ltb_lt in H. unfold xm_kvs. change xm_empty with (xa None None None None None None None None None None None None).
  rewrite fold_res_app, (chunk_type _ _ _ _ _ _ _ _ _ _ _ _ H). cbn [bind].
  rewrite fold_res_app, chunk_uri by assumption. cbn [bind].
  rewrite fold_res_app, chunk_group by assumption. cbn [bind].
  rewrite fold_res_app, chunk_lang by assumption. cbn [bind].
  rewrite fold_res_app, chunk_assoc by assumption. cbn [bind].
  rewrite fold_res_app, chunk_name by assumption. cbn [bind].
  rewrite fold_res_app, chunk_default. cbn [bind].
  rewrite fold_res_app, chunk_autoselect. cbn [bind].
  rewrite fold_res_app, chunk_forced. cbn [bind].
  rewrite fold_res_app, chunk_instream by assumption. cbn [bind].
  rewrite fold_res_app, chunk_chars by assumption. cbn [bind].
  rewrite chunk_channels by assumption. cbn [bind].
  apply xm_build_of. assumption.
Qed.
