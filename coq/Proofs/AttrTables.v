(* AttrTables.v — the attribute names every attribute-list parser matches, how it treats the value
   (unquote / parse / yes-no), and the attribute names and quoting of every Display impl, read from
   the source by the translator on every run, are the ones the model implements. *)
From hls Require Import Base Float Lex Kinds Types Tags Line Keys Media Master.
From hls.Generated Require Import Tables.
From hls.Proofs Require Import EqFacts Lexical AttrText TagText TagTextMedia TagTextVariant TagTextSegment TagTextDateRange.
From Coq Require Import String.
Open Scope N_scope.
Local Open Scope string_scope.

(* as read from the source when the model was written: (attribute, treatment of the value, can fail) *)
Definition expected_parser_attr_table : list (string * list (string * string * bool)) :=
  [ ("ExtXMedia", [("ASSOC-LANGUAGE", "unquote", false); ("AUTOSELECT", "parse_yes_or_no", true); ("CHANNELS", "unquote+parse+Channels", true); ("CHARACTERISTICS", "unquote", false); ("DEFAULT", "parse_yes_or_no", true); ("FORCED", "parse_yes_or_no", true); ("GROUP-ID", "unquote", false); ("INSTREAM-ID", "unquote+parse+InStreamId", true); ("LANGUAGE", "unquote", false); ("NAME", "unquote", false); ("TYPE", "parse+MediaType", true); ("URI", "unquote", false); ("_", "store", false)]);
    ("ExtXSessionData", [("DATA-ID", "unquote", false); ("LANGUAGE", "unquote", false); ("URI", "unquote", false); ("VALUE", "unquote", false); ("_", "store", false)]);
    ("DecryptionKey", [("IV", "parse", true); ("KEYFORMAT", "store", false); ("KEYFORMATVERSIONS", "parse", true); ("METHOD", "parse", true); ("URI", "unquote+trim", false); ("_", "store", false)]);
    ("StreamData", [("AVERAGE-BANDWIDTH", "parse+u64", true); ("BANDWIDTH", "parse+u64", true); ("CODECS", "unquote+try_from+TryFrom", true); ("HDCP-LEVEL", "parse+HdcpLevel", true); ("RESOLUTION", "parse", true); ("VIDEO", "unquote", false); ("_", "store", false)]);
    ("VariantStream", [("AUDIO", "unquote", false); ("CLOSED-CAPTIONS", "try_from+ClosedCaptions", false); ("FRAME-RATE", "parse", true); ("SUBTITLES", "unquote", false); ("_", "store", false)]);
    ("ExtXStart", [("PRECISE", "parse_yes_or_no", true); ("TIME-OFFSET", "parse", true); ("_", "store", false)]);
    ("ExtXMap", [("BYTERANGE", "unquote+try_into", true); ("URI", "unquote", false); ("_", "store", false)]);
    ("ExtXDateRange", [("CLASS", "unquote", false); ("DURATION", "parse+try_from_secs_f64", true); ("END-DATE", "unquote+parse", true); ("END-ON-NEXT", "store", false); ("ID", "unquote", false); ("PLANNED-DURATION", "parse+try_from_secs_f64", true); ("SCTE35-CMD", "unquote", false); ("SCTE35-IN", "unquote", false); ("SCTE35-OUT", "unquote", false); ("START-DATE", "unquote+parse", true); ("_", "try_from+Value", true)]) ].
Definition expected_display_attr_table : list (string * list (string * string)) :=
  [ ("ExtXMedia", [("TYPE", "plain"); ("URI", "quote"); ("GROUP-ID", "quote"); ("LANGUAGE", "quote"); ("ASSOC-LANGUAGE", "quote"); ("NAME", "quote"); ("DEFAULT", "lit:YES"); ("AUTOSELECT", "lit:YES"); ("FORCED", "lit:YES"); ("INSTREAM-ID", "quote"); ("CHARACTERISTICS", "quote"); ("CHANNELS", "quote")]);
    ("ExtXSessionData", [("DATA-ID", "quote"); ("VALUE", "quote"); ("URI", "quote"); ("LANGUAGE", "quote")]);
    ("DecryptionKey", [("METHOD", "plain"); ("URI", "quote"); ("IV", "plain"); ("KEYFORMAT", "quote"); ("KEYFORMATVERSIONS", "plain")]);
    ("StreamData", [("BANDWIDTH", "plain"); ("AVERAGE-BANDWIDTH", "plain"); ("CODECS", "quote"); ("RESOLUTION", "plain"); ("HDCP-LEVEL", "plain"); ("VIDEO", "quote")]);
    ("VariantStream", [("URI", "quote"); ("FRAME-RATE", "plain"); ("AUDIO", "quote"); ("SUBTITLES", "quote"); ("CLOSED-CAPTIONS", "plain")]);
    ("ExtXStart", [("TIME-OFFSET", "plain"); ("PRECISE", "lit:YES")]);
    ("ExtXMap", [("URI", "quote"); ("BYTERANGE", "quote")]);
    ("ExtXDateRange", [("ID", "quote"); ("CLASS", "quote"); ("START-DATE", "quote"); ("END-DATE", "quote"); ("DURATION", "plain"); ("PLANNED-DURATION", "plain"); ("SCTE35-CMD", "plain"); ("SCTE35-OUT", "plain"); ("SCTE35-IN", "plain"); ("END-ON-NEXT", "lit:YES")]) ].

Lemma attr_tables_as_modelled :
  attr_section_ok = true /\ parser_attr_table = expected_parser_attr_table
  /\ display_attr_table = expected_display_attr_table.
Proof. repeat split; reflexivity. Qed.

(* ---------- the model matches exactly these names ---------- *)
Fixpoint assoc {A} (k : string) (l : list (string * A)) (d : A) : A :=
  match l with [] => d | (k', v) :: r => if String.eqb k k' then v else assoc k r d end.
Definition names_of (ty : string) : list str :=
  map (fun r => lit (fst (fst r)))
      (filter (fun r => negb (String.eqb (fst (fst r)) "_")) (assoc ty expected_parser_attr_table [])).
Definition display_names_of (ty : string) : list str := map (fun r => lit (fst r)) (assoc ty expected_display_attr_table []).

Lemma names_media : names_of "ExtXMedia" = [s_ASSOC_LANGUAGE; s_AUTOSELECT; s_CHANNELS; s_CHARACTERISTICS; s_DEFAULT; s_FORCED; s_GROUP_ID; s_INSTREAM_ID; s_LANGUAGE; s_NAME; s_TYPE; s_URI].
Proof. vm_compute. reflexivity. Qed.
Lemma names_session_data : names_of "ExtXSessionData" = [s_DATA_ID; s_LANGUAGE; s_URI; s_VALUE].
Proof. vm_compute. reflexivity. Qed.
Lemma names_key : names_of "DecryptionKey" = [s_IV; s_KEYFORMAT; s_KEYFORMATVERSIONS; s_METHOD; s_URI].
Proof. vm_compute. reflexivity. Qed.
Lemma names_stream_data : names_of "StreamData" = [s_AVERAGE_BANDWIDTH; s_BANDWIDTH; s_CODECS; s_HDCP_LEVEL; s_RESOLUTION; s_VIDEO].
Proof. vm_compute. reflexivity. Qed.
Lemma names_variant : names_of "VariantStream" = [s_AUDIO; s_CLOSED_CAPTIONS; s_FRAME_RATE; s_SUBTITLES].
Proof. vm_compute. reflexivity. Qed.
Lemma names_start : names_of "ExtXStart" = [s_PRECISE; s_TIME_OFFSET].
Proof. vm_compute. reflexivity. Qed.
Lemma names_map : names_of "ExtXMap" = [s_BYTERANGE; s_URI].
Proof. vm_compute. reflexivity. Qed.
Lemma names_daterange : names_of "ExtXDateRange" = [s_CLASS; s_DURATION; s_END_DATE; s_END_ON_NEXT; s_ID; s_PLANNED_DURATION; s_SCTE35_CMD; s_SCTE35_IN; s_SCTE35_OUT; s_START_DATE].
Proof. vm_compute. reflexivity. Qed.

(* any other attribute name is ignored by the model's attribute functions *)
Ltac ignore_tac H :=
  cbn [existsb] in H;
  repeat (apply orb_false_iff in H; let H1 := fresh "N" in destruct H as [H1 H]);
  repeat match goal with N : str_eqb _ _ = false |- _ => rewrite N; clear N end; reflexivity.
Lemma xm_attr_ignores : forall a k v, existsb (str_eqb k) (names_of "ExtXMedia") = false -> xm_attr a (k, v) = Ok a.
Proof. intros a k v H. rewrite names_media in H. unfold xm_attr. ignore_tac H. Qed.
Lemma xs_attr_ignores : forall a k v, existsb (str_eqb k) (names_of "ExtXSessionData") = false -> xs_attr a (k, v) = Ok a.
Proof. intros a k v H. rewrite names_session_data in H. unfold xs_attr. ignore_tac H. Qed.
Lemma key_attr_ignores : forall a k v, existsb (str_eqb k) (names_of "DecryptionKey") = false -> key_attr a (k, v) = Ok a.
Proof. intros a k v H. rewrite names_key in H. unfold key_attr. ignore_tac H. Qed.
Lemma sd_attr_ignores : forall a k v, existsb (str_eqb k) (names_of "StreamData") = false -> sd_attr a (k, v) = Ok a.
Proof. intros a k v H. rewrite names_stream_data in H. unfold sd_attr. ignore_tac H. Qed.
Lemma si_attr_ignores : forall a k v, existsb (str_eqb k) (names_of "VariantStream") = false -> si_attr a (k, v) = Ok a.
Proof. intros a k v H. rewrite names_variant in H. unfold si_attr. ignore_tac H. Qed.
Lemma start_attr_ignores : forall a k v, existsb (str_eqb k) (names_of "ExtXStart") = false -> start_attr a (k, v) = Ok a.
Proof. intros a k v H. rewrite names_start in H. unfold start_attr. ignore_tac H. Qed.
Lemma map_attr_ignores : forall a k v, existsb (str_eqb k) (names_of "ExtXMap") = false -> map_attr a (k, v) = Ok a.
Proof. intros a k v H. rewrite names_map in H. unfold map_attr. ignore_tac H. Qed.
Lemma dr_attr_ignores : forall a k v, existsb (str_eqb k) (names_of "ExtXDateRange") = false ->
  starts_with s_Xdash k = false -> dr_attr a (k, v) = Ok a.
Proof. intros a k v H Hx. rewrite names_daterange in H. unfold dr_attr. rewrite Hx. ignore_tac H. Qed.

(* ---------- the model's writers emit exactly these names, in this order ---------- *)
Definition full_key : Key :=
  {| k_method := 0; k_uri := [97]; k_iv := IvAes [0;1;2;3;4;5;6;7;8;9;10;11;12;13;14;15]%N;
     k_format := Some KfIdentity; k_versions := Some [1; 2]%N |}.
Definition full_sd : StreamData :=
  {| sd_bandwidth := 1; sd_avg := Some 1%N; sd_codecs := Some [[97]]; sd_resolution := Some (1, 1)%N;
     sd_hdcp := Some 0%N; sd_video := Some [97] |}.
Definition full_media : Media :=
  {| xm_type := 0; xm_uri := Some [97]; xm_group := [97]; xm_lang := Some [97]; xm_assoc := Some [97]; xm_name := [97];
     xm_default := true; xm_autoselect := true; xm_forced := true; xm_instream := Some 0%N; xm_chars := Some [97];
     xm_channels := Some {| ch_number := 2; ch_joc := false |} |}.
Definition full_daterange : DateRange :=
  {| dr_id := [97]; dr_class := Some [97]; dr_start := Some [97]; dr_end := Some [97]; dr_duration := Some 1%N;
     dr_planned := Some 1%N; dr_cmd := Some [97]; dr_out := Some [97]; dr_in := Some [97]; dr_eon := true; dr_client := [] |}.
Lemma display_names_as_modelled :
  map fst (xm_kvs full_media) = display_names_of "ExtXMedia"
  /\ map fst (sdata_kvs {| xs_id := [97]; xs_data := SdValue [97]; xs_lang := Some [97] |})
     = [lit "DATA-ID"; lit "VALUE"; lit "LANGUAGE"]
  /\ map fst (sdata_kvs {| xs_id := [97]; xs_data := SdUri [97]; xs_lang := Some [97] |})
     = [lit "DATA-ID"; lit "URI"; lit "LANGUAGE"]
  /\ map fst (key_kvs full_key) = display_names_of "DecryptionKey"
  /\ map fst (sd_kvs full_sd) = display_names_of "StreamData"
  /\ lit "URI" :: map fst (si_extra (Some (FZero false)) (Some [97]) (Some [97]) (Some CcNone)) = display_names_of "VariantStream"
  /\ map fst (start_kvs {| st_offset := FZero false; st_precise := true |}) = display_names_of "ExtXStart"
  /\ map fst (xmap_kvs {| map_uri := [97]; map_range := Some {| br_start := Some 0%N; br_end := 1 |}; map_keys := [] |})
     = display_names_of "ExtXMap"
  /\ map fst (dr_kvs full_daterange) = display_names_of "ExtXDateRange".
Proof. vm_compute. repeat split. Qed.
