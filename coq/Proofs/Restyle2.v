(* Restyle2.v — instances of the "same tag, other spelling" rule of Restyle.v: a tag line whose attribute list is
   written in any order, with any white space around names, `=`, values and commas, and with additional attributes
   the parser does not know, gives the same item as every other such spelling of the same canonical attribute list. *)
From hls Require Import Base Float Lex Kinds Types Tags Line Keys Media Master.
From hls.Generated Require Import Tables.
From hls.Proofs Require Import EqFacts Build Parse C12 AttrOrder Lexical TextLines AttrTables AttrOrder2 TagTextDateRange StepOrder MasterText Restyle.
From Coq Require Import Permutation Lia.
Open Scope N_scope.

Definition kvs_of (entries : list entry) : list (str * str) := map (fun e => (e_k e, e_v e)) entries.
(* `entries` is a spelling of the canonical attribute list `canon` for the parser of type `ty` *)
Definition styled (ty : String.string) (entries : list entry) (canon : list (str * str)) : Prop :=
  Forall entry_ok entries /\ exists extra, Permutation (kvs_of entries) (canon ++ extra) /\ NoDup (map fst (canon ++ extra))
    /\ (forall p, In p extra -> unknown_to ty (fst p)).
Definition styled_dr (entries : list entry) (canon : list (str * str)) : Prop :=
  Forall entry_ok entries /\ exists extra, Permutation (kvs_of entries) (canon ++ extra) /\ NoDup (map fst (canon ++ extra))
    /\ (forall p, In p extra -> unknown_to "ExtXDateRange" (fst p) /\ starts_with s_Xdash (fst p) = false).

(* the line as `clean_lines` hands it over: already trimmed *)
Lemma tag_trimmed : forall pfx r, trim (pfx ++ r) = pfx ++ r -> tag (pfx ++ r) pfx = Ok r.
Proof. intros pfx r H. unfold tag. rewrite H, strip_prefix_app. reflexivity. Qed.

Lemma item1_tag : forall pfx k r, In (false, pfx, k) dispatch_table -> starts_with s_hashEXT pfx = true ->
  item1 (pfx ++ r) = rmap LTag (parse_kind k (pfx ++ r)).
Proof.
  intros pfx k r Hin Hh. unfold item1. rewrite (starts_with_app_true _ _ r Hh).
  rewrite (dispatch_by_prefix pfx k r Hin). reflexivity.
Qed.

Ltac styled_fold H conj_sel :=
  let Hok := fresh "Hok" in let extra := fresh "extra" in let HP := fresh "HP" in let Hnd := fresh "Hnd" in let Hu := fresh "Hu" in
  destruct H as [Hok [extra [HP [Hnd Hu]]]];
  rewrite (conj_sel _ _ extra _ Hok HP Hnd Hu).

Definition sel_xm := proj1 styled_all.
Definition sel_xs := proj1 (proj2 styled_all).
Definition sel_key := proj1 (proj2 (proj2 styled_all)).
Definition sel_sd := proj1 (proj2 (proj2 (proj2 styled_all))).
Definition sel_si := proj1 (proj2 (proj2 (proj2 (proj2 styled_all)))).
Definition sel_start := proj1 (proj2 (proj2 (proj2 (proj2 (proj2 styled_all))))).
Definition sel_map := proj1 (proj2 (proj2 (proj2 (proj2 (proj2 (proj2 styled_all)))))).
Definition sel_dr := proj2 (proj2 (proj2 (proj2 (proj2 (proj2 (proj2 styled_all)))))).

Lemma bind_ok_id : forall A (r : res A), bind r (fun a => Ok a) = r.
Proof. intros A [a| |]; reflexivity. Qed.

(* ---------- each tag parser sees only the canonical list ---------- *)
Lemma xmap_styled : forall entries canon, styled "ExtXMap" entries canon ->
  trim (pfx_ExtXMap ++ render_attrs entries) = pfx_ExtXMap ++ render_attrs entries ->
  parse_xmap (pfx_ExtXMap ++ render_attrs entries) =
  (let! a := fold_res map_attr canon (None, None) in let! u := of_opt (fst a) in
   Ok {| map_uri := u; map_range := snd a; map_keys := [] |}).
Proof.
  intros entries canon H Ht. unfold parse_xmap. rewrite (tag_trimmed _ _ Ht). cbn [bind].
  styled_fold H sel_map. rewrite bind_ok_id. reflexivity.
Qed.
Lemma start_styled : forall entries canon, styled "ExtXStart" entries canon ->
  trim (pfx_ExtXStart ++ render_attrs entries) = pfx_ExtXStart ++ render_attrs entries ->
  parse_start (pfx_ExtXStart ++ render_attrs entries) =
  (let! a := fold_res start_attr canon (None, false) in let! off := of_opt (fst a) in
   Ok {| st_offset := off; st_precise := snd a |}).
Proof.
  intros entries canon H Ht. unfold parse_start. rewrite (tag_trimmed _ _ Ht). cbn [bind].
  styled_fold H sel_start. rewrite bind_ok_id. reflexivity.
Qed.
Lemma xmedia_styled : forall entries canon, styled "ExtXMedia" entries canon ->
  trim (pfx_ExtXMedia ++ render_attrs entries) = pfx_ExtXMedia ++ render_attrs entries ->
  parse_xmedia (pfx_ExtXMedia ++ render_attrs entries) = (let! a := fold_res xm_attr canon xm_empty in xm_build a).
Proof.
  intros entries canon H Ht. unfold parse_xmedia. rewrite (tag_trimmed _ _ Ht). cbn [bind].
  styled_fold H sel_xm. rewrite bind_ok_id. reflexivity.
Qed.
Lemma session_data_styled : forall entries canon, styled "ExtXSessionData" entries canon ->
  trim (pfx_ExtXSessionData ++ render_attrs entries) = pfx_ExtXSessionData ++ render_attrs entries ->
  forall entries', styled "ExtXSessionData" entries' canon ->
  trim (pfx_ExtXSessionData ++ render_attrs entries') = pfx_ExtXSessionData ++ render_attrs entries' ->
  parse_session_data (pfx_ExtXSessionData ++ render_attrs entries) = parse_session_data (pfx_ExtXSessionData ++ render_attrs entries').
Proof.
  intros entries canon H Ht entries' H' Ht'. unfold parse_session_data. rewrite (tag_trimmed _ _ Ht), (tag_trimmed _ _ Ht'). cbn [bind].
  styled_fold H sel_xs. styled_fold H' sel_xs. reflexivity.
Qed.
Lemma daterange_styled : forall entries canon, styled_dr entries canon ->
  trim (pfx_ExtXDateRange ++ render_attrs entries) = pfx_ExtXDateRange ++ render_attrs entries ->
  forall entries', styled_dr entries' canon ->
  trim (pfx_ExtXDateRange ++ render_attrs entries') = pfx_ExtXDateRange ++ render_attrs entries' ->
  parse_daterange (pfx_ExtXDateRange ++ render_attrs entries) = parse_daterange (pfx_ExtXDateRange ++ render_attrs entries').
Proof.
  intros entries canon H Ht entries' H' Ht'. unfold parse_daterange. rewrite (tag_trimmed _ _ Ht), (tag_trimmed _ _ Ht'). cbn [bind].
  styled_fold H sel_dr. styled_fold H' sel_dr. reflexivity.
Qed.

(* keys: the METHOD=NONE test looks at the attribute list too *)
Definition says_none (kv : str * str) : bool := str_eqb (fst kv) s_METHOD && str_eqb (snd kv) s_NONE.
Definition says_other (kv : str * str) : bool :=
  negb (says_none kv) && (str_eqb (fst kv) s_METHOD || str_eqb (fst kv) s_URI || str_eqb (fst kv) s_IV
                          || str_eqb (fst kv) s_KEYFORMAT || str_eqb (fst kv) s_KEYFORMATVERSIONS).
Lemma none_scan_spec : forall l a b,
  fold_left none_scan l (a, b) = (a || existsb says_none l, b && negb (existsb says_other l)).
Proof.
  induction l as [|[k v] l IH]; intros a b; cbn [fold_left existsb].
  - rewrite orb_false_r, andb_true_r. reflexivity.
  - unfold none_scan at 2. unfold says_none at 1, says_other at 1. unfold says_none at 2. cbn [fst snd].
    destruct (str_eqb k s_METHOD && str_eqb v s_NONE) eqn:E1.
    + rewrite IH. cbn [negb andb orb]. rewrite orb_true_r. reflexivity.
    + cbn [negb andb].
      destruct (str_eqb k s_METHOD || str_eqb k s_URI || str_eqb k s_IV || str_eqb k s_KEYFORMAT || str_eqb k s_KEYFORMATVERSIONS) eqn:E2;
        rewrite IH; cbn [negb orb andb fst snd]; rewrite ?andb_false_r, ?andb_false_l; reflexivity.
Qed.
Lemma is_method_none_spec : forall l, is_method_none l = existsb says_none l && negb (existsb says_other l).
Proof. intros l. unfold is_method_none. rewrite none_scan_spec. reflexivity. Qed.
Lemma existsb_perm : forall A (f : A -> bool) l1 l2, Permutation l1 l2 -> existsb f l1 = existsb f l2.
Proof.
  induction 1 as [|x l1 l2 _ IH|x y l|l1 l2 l3 _ IH1 _ IH2]; cbn [existsb]; try congruence.
  - rewrite !orb_assoc, (orb_comm (f y)). reflexivity.
Qed.
Lemma unknown_key_name : forall k v, unknown_to "DecryptionKey" k -> says_none (k, v) = false /\ says_other (k, v) = false.
Proof.
  intros k v H. unfold unknown_to in H. rewrite names_key in H. cbn [existsb] in H.
  repeat (apply orb_false_iff in H; let N := fresh "N" in destruct H as [N H]).
  unfold says_none, says_other. cbn [fst snd]. rewrite N, N0, N1, N2, N3. split; [reflexivity | apply andb_false_r].
Qed.
Lemma existsb_unknown : forall (f : str * str -> bool) extra,
  (forall p, In p extra -> f p = false) -> existsb f extra = false.
Proof.
  induction extra as [|p r IH]; intros H; [reflexivity|]. cbn [existsb]. rewrite (H p (or_introl eq_refl)). apply IH.
  intros q Hq. apply H. right. exact Hq.
Qed.
Lemma is_method_none_styled : forall entries canon, styled "DecryptionKey" entries canon ->
  is_method_none (attr_pairs (render_attrs entries)) = is_method_none canon.
Proof.
  intros entries canon [Hok [extra [HP [_ Hu]]]]. rewrite (tokenizer_inverts_render entries Hok). fold (kvs_of entries).
  rewrite !is_method_none_spec. rewrite (existsb_perm _ says_none _ _ HP), (existsb_perm _ says_other _ _ HP).
  rewrite !existsb_app.
  rewrite (existsb_unknown says_none extra), (existsb_unknown says_other extra).
  - rewrite !orb_false_r. reflexivity.
  - intros [k v] Hp. apply (unknown_key_name k v). apply (Hu (k, v) Hp).
  - intros [k v] Hp. apply (unknown_key_name k v). apply (Hu (k, v) Hp).
Qed.
Lemma decryption_key_styled : forall entries canon, styled "DecryptionKey" entries canon ->
  parse_decryption_key (render_attrs entries) =
  (let! a := fold_res key_attr canon {| ka_method := None; ka_uri := None; ka_iv := None; ka_format := None; ka_versions := None |} in
   let! m := of_opt (ka_method a) in let! u := of_opt (ka_uri a) in
   Ok {| k_method := m; k_uri := u; k_iv := match ka_iv a with Some iv => iv | None => IvMissing end;
         k_format := ka_format a; k_versions := ka_versions a |}).
Proof.
  intros entries canon H. unfold parse_decryption_key. styled_fold H sel_key. rewrite bind_ok_id. reflexivity.
Qed.
Lemma xkey_styled : forall entries entries' canon, styled "DecryptionKey" entries canon -> styled "DecryptionKey" entries' canon ->
  trim (pfx_ExtXKey ++ render_attrs entries) = pfx_ExtXKey ++ render_attrs entries ->
  trim (pfx_ExtXKey ++ render_attrs entries') = pfx_ExtXKey ++ render_attrs entries' ->
  parse_xkey (pfx_ExtXKey ++ render_attrs entries) = parse_xkey (pfx_ExtXKey ++ render_attrs entries').
Proof.
  intros entries entries' canon H H' Ht Ht'. unfold parse_xkey. rewrite (tag_trimmed _ _ Ht), (tag_trimmed _ _ Ht'). cbn [bind].
  rewrite (is_method_none_styled _ _ H), (is_method_none_styled _ _ H').
  rewrite (decryption_key_styled _ _ H), (decryption_key_styled _ _ H'). reflexivity.
Qed.
Lemma session_key_styled : forall entries entries' canon, styled "DecryptionKey" entries canon -> styled "DecryptionKey" entries' canon ->
  trim (pfx_ExtXSessionKey ++ render_attrs entries) = pfx_ExtXSessionKey ++ render_attrs entries ->
  trim (pfx_ExtXSessionKey ++ render_attrs entries') = pfx_ExtXSessionKey ++ render_attrs entries' ->
  parse_session_key (pfx_ExtXSessionKey ++ render_attrs entries) = parse_session_key (pfx_ExtXSessionKey ++ render_attrs entries').
Proof.
  intros entries entries' canon H H' Ht Ht'. unfold parse_session_key. rewrite (tag_trimmed _ _ Ht), (tag_trimmed _ _ Ht'). cbn [bind].
  rewrite (decryption_key_styled _ _ H), (decryption_key_styled _ _ H'). reflexivity.
Qed.

(* ---------- the rule of Restyle.v for these tags ---------- *)
Ltac in_tbl := cbn [In dispatch_table]; tauto.
Lemma single_pfx : forall pfx r, starts_with pairing_prefix pfx = false -> starts_with pfx pairing_prefix = false ->
  single (pfx ++ r) = true.
Proof. intros pfx r H1 H2. unfold single. rewrite (starts_with_app_false pairing_prefix pfx r H1 H2). reflexivity. Qed.

Section Lines.
  Variable a b : list str.
  Hypothesis Ha : closed a = true.

  Ltac line_rule pfx K lem :=
    apply ls_replace; [exact Ha | apply single_pfx; reflexivity | apply single_pfx; reflexivity |];
    rewrite !(item1_tag pfx K) by (first [in_tbl | reflexivity]); cbn [parse_kind]; rewrite lem; reflexivity.

  Theorem restyle_xmap : forall e e' canon, styled "ExtXMap" e canon -> styled "ExtXMap" e' canon ->
    trim (pfx_ExtXMap ++ render_attrs e) = pfx_ExtXMap ++ render_attrs e ->
    trim (pfx_ExtXMap ++ render_attrs e') = pfx_ExtXMap ++ render_attrs e' ->
    lstep (a ++ (pfx_ExtXMap ++ render_attrs e) :: b) (a ++ (pfx_ExtXMap ++ render_attrs e') :: b).
  Proof.
    intros e e' canon H H' Ht Ht'.
    apply ls_replace; [exact Ha | apply single_pfx; reflexivity | apply single_pfx; reflexivity |].
    rewrite !(item1_tag pfx_ExtXMap K_ExtXMap) by (first [in_tbl | reflexivity]). cbn [parse_kind].
    rewrite (xmap_styled _ _ H Ht), (xmap_styled _ _ H' Ht'). reflexivity.
  Qed.
  Theorem restyle_start : forall e e' canon, styled "ExtXStart" e canon -> styled "ExtXStart" e' canon ->
    trim (pfx_ExtXStart ++ render_attrs e) = pfx_ExtXStart ++ render_attrs e ->
    trim (pfx_ExtXStart ++ render_attrs e') = pfx_ExtXStart ++ render_attrs e' ->
    lstep (a ++ (pfx_ExtXStart ++ render_attrs e) :: b) (a ++ (pfx_ExtXStart ++ render_attrs e') :: b).
  Proof.
    intros e e' canon H H' Ht Ht'.
    apply ls_replace; [exact Ha | apply single_pfx; reflexivity | apply single_pfx; reflexivity |].
    rewrite !(item1_tag pfx_ExtXStart K_ExtXStart) by (first [in_tbl | reflexivity]). cbn [parse_kind].
    rewrite (start_styled _ _ H Ht), (start_styled _ _ H' Ht'). reflexivity.
  Qed.
  Theorem restyle_xmedia : forall e e' canon, styled "ExtXMedia" e canon -> styled "ExtXMedia" e' canon ->
    trim (pfx_ExtXMedia ++ render_attrs e) = pfx_ExtXMedia ++ render_attrs e ->
    trim (pfx_ExtXMedia ++ render_attrs e') = pfx_ExtXMedia ++ render_attrs e' ->
    lstep (a ++ (pfx_ExtXMedia ++ render_attrs e) :: b) (a ++ (pfx_ExtXMedia ++ render_attrs e') :: b).
  Proof.
    intros e e' canon H H' Ht Ht'.
    apply ls_replace; [exact Ha | apply single_pfx; reflexivity | apply single_pfx; reflexivity |].
    rewrite !(item1_tag pfx_ExtXMedia K_ExtXMedia) by (first [in_tbl | reflexivity]). cbn [parse_kind].
    rewrite (xmedia_styled _ _ H Ht), (xmedia_styled _ _ H' Ht'). reflexivity.
  Qed.
  Theorem restyle_session_data : forall e e' canon, styled "ExtXSessionData" e canon -> styled "ExtXSessionData" e' canon ->
    trim (pfx_ExtXSessionData ++ render_attrs e) = pfx_ExtXSessionData ++ render_attrs e ->
    trim (pfx_ExtXSessionData ++ render_attrs e') = pfx_ExtXSessionData ++ render_attrs e' ->
    lstep (a ++ (pfx_ExtXSessionData ++ render_attrs e) :: b) (a ++ (pfx_ExtXSessionData ++ render_attrs e') :: b).
  Proof.
    intros e e' canon H H' Ht Ht'.
    apply ls_replace; [exact Ha | apply single_pfx; reflexivity | apply single_pfx; reflexivity |].
    rewrite !(item1_tag pfx_ExtXSessionData K_ExtXSessionData) by (first [in_tbl | reflexivity]). cbn [parse_kind].
    rewrite (session_data_styled _ _ H Ht _ H' Ht'). reflexivity.
  Qed.
  Theorem restyle_daterange : forall e e' canon, styled_dr e canon -> styled_dr e' canon ->
    trim (pfx_ExtXDateRange ++ render_attrs e) = pfx_ExtXDateRange ++ render_attrs e ->
    trim (pfx_ExtXDateRange ++ render_attrs e') = pfx_ExtXDateRange ++ render_attrs e' ->
    lstep (a ++ (pfx_ExtXDateRange ++ render_attrs e) :: b) (a ++ (pfx_ExtXDateRange ++ render_attrs e') :: b).
  Proof.
    intros e e' canon H H' Ht Ht'.
    apply ls_replace; [exact Ha | apply single_pfx; reflexivity | apply single_pfx; reflexivity |].
    rewrite !(item1_tag pfx_ExtXDateRange K_ExtXDateRange) by (first [in_tbl | reflexivity]). cbn [parse_kind].
    rewrite (daterange_styled _ _ H Ht _ H' Ht'). reflexivity.
  Qed.
  Theorem restyle_xkey : forall e e' canon, styled "DecryptionKey" e canon -> styled "DecryptionKey" e' canon ->
    trim (pfx_ExtXKey ++ render_attrs e) = pfx_ExtXKey ++ render_attrs e ->
    trim (pfx_ExtXKey ++ render_attrs e') = pfx_ExtXKey ++ render_attrs e' ->
    lstep (a ++ (pfx_ExtXKey ++ render_attrs e) :: b) (a ++ (pfx_ExtXKey ++ render_attrs e') :: b).
  Proof.
    intros e e' canon H H' Ht Ht'.
    apply ls_replace; [exact Ha | apply single_pfx; reflexivity | apply single_pfx; reflexivity |].
    rewrite !(item1_tag pfx_ExtXKey K_ExtXKey) by (first [in_tbl | reflexivity]). cbn [parse_kind].
    rewrite (xkey_styled _ _ _ H H' Ht Ht'). reflexivity.
  Qed.
  Theorem restyle_session_key : forall e e' canon, styled "DecryptionKey" e canon -> styled "DecryptionKey" e' canon ->
    trim (pfx_ExtXSessionKey ++ render_attrs e) = pfx_ExtXSessionKey ++ render_attrs e ->
    trim (pfx_ExtXSessionKey ++ render_attrs e') = pfx_ExtXSessionKey ++ render_attrs e' ->
    lstep (a ++ (pfx_ExtXSessionKey ++ render_attrs e) :: b) (a ++ (pfx_ExtXSessionKey ++ render_attrs e') :: b).
  Proof.
    intros e e' canon H H' Ht Ht'.
    apply ls_replace; [exact Ha | apply single_pfx; reflexivity | apply single_pfx; reflexivity |].
    rewrite !(item1_tag pfx_ExtXSessionKey K_ExtXSessionKey) by (first [in_tbl | reflexivity]). cbn [parse_kind].
    rewrite (session_key_styled _ _ _ H H' Ht Ht'). reflexivity.
  Qed.
End Lines.

(* ---------- variant streams: the same attribute list is read by two parsers ---------- *)
(* csi = what the STREAM-INF parser itself reads (FRAME-RATE, AUDIO, SUBTITLES, CLOSED-CAPTIONS), csd = what the shared
   stream-data parser reads (BANDWIDTH ...); each is invisible to the other parser *)
Definition styled2 (entries : list entry) (csi csd : list (str * str)) : Prop :=
  Forall entry_ok entries /\ exists extra, Permutation (kvs_of entries) (csi ++ csd ++ extra)
    /\ NoDup (map fst (csi ++ csd ++ extra))
    /\ (forall p, In p csi -> unknown_to "StreamData" (fst p))
    /\ (forall p, In p csd -> unknown_to "VariantStream" (fst p))
    /\ (forall p, In p extra -> unknown_to "VariantStream" (fst p) /\ unknown_to "StreamData" (fst p)).

Lemma styled2_si : forall e csi csd, styled2 e csi csd -> styled "VariantStream" e csi.
Proof.
  intros e csi csd [Hok [extra [HP [Hnd [_ [H2 H3]]]]]]. split; [exact Hok|]. exists (csd ++ extra). repeat split; try assumption.
  intros p Hp. apply in_app_or in Hp. destruct Hp as [Hp | Hp]; [apply H2, Hp | apply (H3 p Hp)].
Qed.
Lemma styled2_sd : forall e csi csd, styled2 e csi csd -> styled "StreamData" e csd.
Proof.
  intros e csi csd [Hok [extra [HP [Hnd [H1 [_ H3]]]]]]. split; [exact Hok|]. exists (csi ++ extra).
  assert (HP2 : Permutation (csi ++ csd ++ extra) (csd ++ csi ++ extra)).
  { rewrite !app_assoc. apply Permutation_app_tail. apply Permutation_app_comm. }
  repeat split.
  - eapply Permutation_trans; [exact HP | exact HP2].
  - eapply Permutation_NoDup; [apply Permutation_map; exact HP2 | exact Hnd].
  - intros p Hp. apply in_app_or in Hp. destruct Hp as [Hp | Hp]; [apply H1, Hp | apply (H3 p Hp)].
Qed.
Lemma stream_data_styled : forall e canon, styled "StreamData" e canon ->
  parse_stream_data (render_attrs e) =
  (let! a := fold_res sd_attr canon {| sa_bw := None; sa_avg := None; sa_codecs := None; sa_res := None; sa_hdcp := None; sa_video := None |} in
   let! bw := of_opt (sa_bw a) in
   Ok {| sd_bandwidth := bw; sd_avg := sa_avg a; sd_codecs := sa_codecs a; sd_resolution := sa_res a; sd_hdcp := sa_hdcp a; sd_video := sa_video a |}).
Proof. intros e canon H. unfold parse_stream_data. styled_fold H sel_sd. rewrite bind_ok_id. reflexivity. Qed.

Lemma streaminf_styled : forall e e' csi csd u, styled2 e csi csd -> styled2 e' csi csd ->
  trim (pfx_VariantStream_EXTXSTREAMINF ++ render_attrs e) = pfx_VariantStream_EXTXSTREAMINF ++ render_attrs e ->
  trim (pfx_VariantStream_EXTXSTREAMINF ++ render_attrs e') = pfx_VariantStream_EXTXSTREAMINF ++ render_attrs e' ->
  parse_streaminf (pfx_VariantStream_EXTXSTREAMINF ++ render_attrs e) u = parse_streaminf (pfx_VariantStream_EXTXSTREAMINF ++ render_attrs e') u.
Proof.
  intros e e' csi csd u H H' Ht Ht'. unfold parse_streaminf. rewrite (tag_trimmed _ _ Ht), (tag_trimmed _ _ Ht'). cbn [bind].
  pose proof (styled2_si _ _ _ H) as S1. pose proof (styled2_si _ _ _ H') as S1'.
  rewrite (stream_data_styled _ _ (styled2_sd _ _ _ H)), (stream_data_styled _ _ (styled2_sd _ _ _ H')).
  styled_fold S1 sel_si. styled_fold S1' sel_si. reflexivity.
Qed.

(* the URI of an I-frame stream: the (unique) URI attribute, wherever it stands *)
Lemma find_uri_app_unknown : forall l1 l2, (forall p, In p l1 -> str_eqb (fst p) s_URI = false) -> find_uri (l1 ++ l2) = find_uri l2.
Proof.
  induction l1 as [|[k v] l1 IH]; intros l2 H; [reflexivity|]. cbn [app find_uri].
  pose proof (H (k, v) (or_introl eq_refl)) as Hk. cbn [fst] in Hk. rewrite Hk. apply IH. intros p Hp. apply H. right. exact Hp.
Qed.
Lemma find_uri_perm : forall l1 l2, Permutation l1 l2 -> NoDup (map fst l1) -> find_uri l1 = find_uri l2.
Proof.
  induction 1 as [|[k v] l1 l2 _ IH|[k1 v1] [k2 v2] l|l1 l2 l3 H12 IH12 H23 IH23]; intros Hnd.
  - reflexivity.
  - cbn [find_uri]. destruct (str_eqb k s_URI); [reflexivity|]. apply IH. inversion Hnd; assumption.
  - cbn [find_uri]. destruct (str_eqb k1 s_URI) eqn:E1; destruct (str_eqb k2 s_URI) eqn:E2; try reflexivity.
    exfalso. apply str_eqb_eq in E1, E2. subst. cbn [map fst] in Hnd. inversion Hnd as [|? ? Hn _]. apply Hn. left. reflexivity.
  - rewrite IH12 by assumption. apply IH23. eapply Permutation_NoDup; [apply Permutation_map; exact H12 | exact Hnd].
Qed.
(* an I-frame line: `uri` = the canonical URI attribute (or none), csd = the stream-data attributes *)
Definition styled_iframe (entries : list entry) (uri : list (str * str)) (csd : list (str * str)) : Prop :=
  Forall entry_ok entries /\ exists extra, Permutation (kvs_of entries) (uri ++ csd ++ extra)
    /\ NoDup (map fst (uri ++ csd ++ extra))
    /\ (forall p, In p uri -> fst p = s_URI)
    /\ (forall p, In p csd -> str_eqb (fst p) s_URI = false)
    /\ (forall p, In p extra -> str_eqb (fst p) s_URI = false /\ unknown_to "StreamData" (fst p)).
Lemma uri_unknown_to_sd : unknown_to "StreamData" s_URI.
Proof. vm_compute. reflexivity. Qed.
Lemma iframe_styled : forall e e' uri csd, styled_iframe e uri csd -> styled_iframe e' uri csd ->
  trim (pfx_VariantStream_EXTXIFRAME ++ render_attrs e) = pfx_VariantStream_EXTXIFRAME ++ render_attrs e ->
  trim (pfx_VariantStream_EXTXIFRAME ++ render_attrs e') = pfx_VariantStream_EXTXIFRAME ++ render_attrs e' ->
  parse_iframe (pfx_VariantStream_EXTXIFRAME ++ render_attrs e) = parse_iframe (pfx_VariantStream_EXTXIFRAME ++ render_attrs e').
Proof.
  assert (G : forall e uri csd, styled_iframe e uri csd ->
            find_uri (attr_pairs (render_attrs e)) = find_uri uri /\ styled "StreamData" e csd).
  { intros e uri csd [Hok [extra [HP [Hnd [H1 [H2 H3]]]]]]. split.
    - rewrite (tokenizer_inverts_render e Hok). fold (kvs_of e).
      assert (Hnd' : NoDup (map fst (kvs_of e))).
      { eapply Permutation_NoDup; [apply Permutation_map; apply Permutation_sym; exact HP | exact Hnd]. }
      rewrite (find_uri_perm _ _ HP Hnd').
      assert (HP2 : Permutation (uri ++ csd ++ extra) ((csd ++ extra) ++ uri)) by apply Permutation_app_comm.
      rewrite (find_uri_perm _ _ HP2 Hnd). rewrite find_uri_app_unknown; [reflexivity|].
      intros p Hp. apply in_app_or in Hp. destruct Hp as [Hp | Hp]; [apply H2, Hp | apply (H3 p Hp)].
    - split; [exact Hok|]. exists (uri ++ extra).
      assert (HP2 : Permutation (uri ++ csd ++ extra) (csd ++ uri ++ extra)).
      { rewrite !app_assoc. apply Permutation_app_tail. apply Permutation_app_comm. }
      repeat split.
      + eapply Permutation_trans; [exact HP | exact HP2].
      + eapply Permutation_NoDup; [apply Permutation_map; exact HP2 | exact Hnd].
      + intros p Hp. apply in_app_or in Hp. destruct Hp as [Hp | Hp]; [rewrite (H1 p Hp); exact uri_unknown_to_sd | apply (H3 p Hp)]. }
  intros e e' uri csd H H' Ht Ht'. unfold parse_iframe. rewrite (tag_trimmed _ _ Ht), (tag_trimmed _ _ Ht'). cbn [bind].
  destruct (G _ _ _ H) as [U S]. destruct (G _ _ _ H') as [U' S']. rewrite U, U'.
  rewrite (stream_data_styled _ _ S), (stream_data_styled _ _ S'). reflexivity.
Qed.

Section VariantLines.
  Variable a b : list str.
  Hypothesis Ha : closed a = true.
  Theorem restyle_streaminf : forall e e' csi csd u, styled2 e csi csd -> styled2 e' csi csd ->
    trim (pfx_VariantStream_EXTXSTREAMINF ++ render_attrs e) = pfx_VariantStream_EXTXSTREAMINF ++ render_attrs e ->
    trim (pfx_VariantStream_EXTXSTREAMINF ++ render_attrs e') = pfx_VariantStream_EXTXSTREAMINF ++ render_attrs e' ->
    lstep (a ++ (pfx_VariantStream_EXTXSTREAMINF ++ render_attrs e) :: u :: b) (a ++ (pfx_VariantStream_EXTXSTREAMINF ++ render_attrs e') :: u :: b).
  Proof.
    intros e e' csi csd u H H' Ht Ht'.
    assert (Hs : forall r, single (pfx_VariantStream_EXTXSTREAMINF ++ r) = false).
    { intros r. unfold single. apply negb_false_iff. apply starts_with_app_true. reflexivity. }
    apply ls_replace_pair; [exact Ha | apply Hs | apply Hs |]. apply (streaminf_styled _ _ _ _ u H H' Ht Ht').
  Qed.
  Theorem restyle_iframe : forall e e' uri csd, styled_iframe e uri csd -> styled_iframe e' uri csd ->
    trim (pfx_VariantStream_EXTXIFRAME ++ render_attrs e) = pfx_VariantStream_EXTXIFRAME ++ render_attrs e ->
    trim (pfx_VariantStream_EXTXIFRAME ++ render_attrs e') = pfx_VariantStream_EXTXIFRAME ++ render_attrs e' ->
    lstep (a ++ (pfx_VariantStream_EXTXIFRAME ++ render_attrs e) :: b) (a ++ (pfx_VariantStream_EXTXIFRAME ++ render_attrs e') :: b).
  Proof.
    intros e e' uri csd H H' Ht Ht'.
    apply ls_replace; [exact Ha | apply single_pfx; reflexivity | apply single_pfx; reflexivity |].
    rewrite !(item1_tag pfx_VariantStream_EXTXIFRAME K_VariantStream) by (first [in_tbl | reflexivity]). cbn [parse_kind].
    rewrite !(tag_trimmed _ _ Ht), !(tag_trimmed _ _ Ht'). cbn [is_ok].
    rewrite (iframe_styled _ _ _ _ H H' Ht Ht'). reflexivity.
  Qed.
End VariantLines.
