(* Proofs for C16 that concern the line layer: appending lines, truncated master playlists. *)
From hls Require Import Base Float Lex Kinds Types Tags Line Keys Media Master.
From hls.Generated Require Import Tables.
From hls.Proofs Require Import C15.

Lemma split_on_nonempty : forall c s, split_on c s <> [].
Proof.
  intros c s. destruct s as [|x r]; simpl; [discriminate|].
  destruct (x =? c)%N; [discriminate|]. destruct (split_on c r); discriminate.
Qed.

Lemma split_on_append : forall c s ext, split_on c (s ++ c :: ext) = split_on c s ++ split_on c ext.
Proof.
  intros c. induction s as [|x r IH]; intros ext; simpl.
  - rewrite N.eqb_refl. reflexivity.
  - destruct (x =? c)%N.
    + rewrite IH. reflexivity.
    + rewrite IH. pose proof (split_on_nonempty c r) as Hn.
      destruct (split_on c r) as [|h t]; [congruence|]. reflexivity.
Qed.

Lemma clean_lines_append : forall s ext,
  clean_lines (s ++ 10%N :: ext) = clean_lines s ++ clean_lines ext.
Proof.
  intros. unfold clean_lines. rewrite split_on_append, map_app, filter_app. reflexivity.
Qed.

(* a line list whose last line is an EXT-X-STREAM-INF line in tag position *)
Inductive open_streaminf : list str -> Prop :=
| os_last : forall l, starts_with pairing_prefix l = true -> open_streaminf [l]
| os_pair : forall l u rest, starts_with pairing_prefix l = true ->
                             open_streaminf rest -> open_streaminf (l :: u :: rest)
| os_other : forall l rest, starts_with pairing_prefix l = false ->
                            open_streaminf rest -> open_streaminf (l :: rest).

Lemma missing_uri_table : missing_uri_is_error = true.
Proof. reflexivity. Qed.

Lemma open_streaminf_err : forall ls, open_streaminf ls -> In Err (items ls).
Proof.
  induction 1 as [l Hl | l u rest Hl Ho IH | l rest Hl Ho IH]; cbn [items].
  - rewrite Hl, missing_uri_table. left; reflexivity.
  - rewrite Hl. right. exact IH.
  - rewrite Hl. destruct (starts_with s_hashEXT l); [right; exact IH|].
    destruct (starts_with [35%N] l); right; exact IH.
Qed.

Lemma open_streaminf_rejected : forall ls, open_streaminf ls ->
  forall s s', mrun_lines s (items ls) = Ok s' -> False.
Proof.
  intros ls Ho s s' H.
  destruct (mrun_lines_ok _ _ _ H Err (open_streaminf_err _ Ho)) as [l [Hl _]]. discriminate.
Qed.
