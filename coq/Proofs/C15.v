(* Proofs for C15: both parsers fold the same line items; each accepts only items of its own
   kind (the foreign-tag lists are the generated tables), and a media playlist needs an
   EXT-X-TARGETDURATION item, which the master parser rejects. *)
From hls Require Import Base Float Lex Kinds Types Tags Line Keys Media Master.
From hls.Generated Require Import Tables.

(* ---------- what an accepted item looks like ---------- *)
Definition master_item_ok (l : line) : Prop :=
  match l with
  | LTag t => in_kinds (kind_of t) master_rejects = false
  | LComment => True
  | LUri _ => False
  end.
Definition media_item_ok (l : line) : Prop :=
  match l with
  | LTag t => in_kinds (kind_of t) media_rejects = false
  | _ => True
  end.

Lemma mstep_ok : forall s l s', mstep s l = Ok s' -> master_item_ok l.
Proof.
  intros s [t| |u] s' H; unfold master_item_ok; auto.
  - unfold mstep in H. destruct (in_kinds (kind_of t) master_rejects); [discriminate|reflexivity].
  - discriminate.
Qed.
Lemma step_ok : forall s l s', step s l = Ok s' -> media_item_ok l.
Proof.
  intros s [t| |u] s' H; unfold media_item_ok; auto.
  unfold step in H. destruct (in_kinds (kind_of t) media_rejects); [discriminate|reflexivity].
Qed.

Lemma mrun_lines_ok : forall ls s s', mrun_lines s ls = Ok s' ->
  forall r, In r ls -> exists l, r = Ok l /\ master_item_ok l.
Proof.
  induction ls as [|r0 ls IH]; simpl; intros s s' H r Hin; [tauto|].
  destruct r0 as [l0| |]; simpl in H; try discriminate.
  destruct (mstep s l0) as [s1| |] eqn:E; simpl in H; try discriminate.
  destruct Hin as [<- | Hin].
  - exists l0. split; [reflexivity|]. eapply mstep_ok; eassumption.
  - eapply IH; eassumption.
Qed.
Lemma run_lines_ok : forall ls s s', run_lines s ls = Ok s' ->
  forall r, In r ls -> exists l, r = Ok l /\ media_item_ok l.
Proof.
  induction ls as [|r0 ls IH]; simpl; intros s s' H r Hin; [tauto|].
  destruct r0 as [l0| |]; simpl in H; try discriminate.
  destruct (step s l0) as [s1| |] eqn:E; simpl in H; try discriminate.
  destruct Hin as [<- | Hin].
  - exists l0. split; [reflexivity|]. eapply step_ok; eassumption.
  - eapply IH; eassumption.
Qed.

(* ---------- the target duration can only come from an EXT-X-TARGETDURATION item ---------- *)
Lemma step_target : forall s l s', step s l = Ok s' ->
  b_target (ps_b s') = b_target (ps_b s) \/ exists secs, l = LTag (TTarget secs).
Proof.
  intros s [t| |u] s' H; unfold step in H.
  - destruct (in_kinds (kind_of t) media_rejects); [discriminate|].
    destruct t; cbn [step_tag set_seg set_b] in H;
      repeat match type of H with context [if ?c then _ else _] => destruct c end;
      try discriminate; try (inversion H; subst; left; reflexivity).
    right. eexists. reflexivity.
  - inversion H; left; reflexivity.
  - destruct (sa_inf (ps_seg s)); cbn [of_opt bind] in H; [|discriminate].
    inversion H; left; reflexivity.
Qed.

Lemma run_lines_target : forall ls s s', run_lines s ls = Ok s' ->
  b_target (ps_b s') = b_target (ps_b s) \/ exists secs, In (Ok (LTag (TTarget secs))) ls.
Proof.
  induction ls as [|r0 ls IH]; simpl; intros s s' H.
  - inversion H; left; reflexivity.
  - destruct r0 as [l0| |]; simpl in H; try discriminate.
    destruct (step s l0) as [s1| |] eqn:E; simpl in H; try discriminate.
    destruct (IH _ _ H) as [Heq | [secs Hin]].
    + destruct (step_target _ _ _ E) as [Heq2 | [secs ->]].
      * left. congruence.
      * right. exists secs. left; reflexivity.
    + right. exists secs. right; assumption.
Qed.

Lemma build_needs_target : forall b p, build b = Ok p -> b_target b <> None.
Proof.
  intros b p H Hn. unfold build in H. rewrite Hn in H.
  destruct (b_segments b) as [slots|]; cbn [of_opt bind] in H; [|discriminate].
  destruct (match present slots with f :: _ => _ | [] => true end); [|discriminate].
  destruct (build_loop slots 0 (odef (b_mseq b) 0) None) as [sl| |]; cbn [bind] in H; try discriminate.
  destruct (forallb is_some sl); discriminate.
Qed.

(* the body after the header, as both parsers compute it *)
Definition body (input : str) : res str := tag input pfx_ExtM3u.

Lemma media_ok_has_target : forall input p, parse_media input = Ok p ->
  exists rest secs, body input = Ok rest /\ In (Ok (LTag (TTarget secs))) (lines_of rest).
Proof.
  intros input p H. unfold parse_media, parse_media_with in H. unfold body.
  destruct (tag input pfx_ExtM3u) as [rest| |]; cbn [bind] in H; try discriminate.
  exists rest. unfold parse_items in H.
  match type of H with context [run_lines ?s0 _] => destruct (run_lines s0 (lines_of rest)) as [s| |] eqn:E end;
    cbn [bind] in H; try discriminate.
  unfold finish_media in H.
  destruct (ps_partial s); [discriminate|].
  apply build_needs_target in H. cbn [b_target] in H.
  destruct (run_lines_target _ _ _ E) as [Heq | [secs Hin]].
  - rewrite Heq in H. simpl in H. congruence.
  - exists secs. split; [reflexivity | assumption].
Qed.

Lemma master_ok_items : forall input p, parse_master input = Ok p ->
  exists rest, body input = Ok rest /\
    forall r, In r (lines_of rest) -> exists l, r = Ok l /\ master_item_ok l.
Proof.
  intros input p H. unfold parse_master in H. unfold body.
  destruct (tag input pfx_ExtM3u) as [rest| |]; cbn [bind] in H; try discriminate.
  exists rest. split; [reflexivity|]. unfold parse_master_items in H.
  match type of H with context [mrun_lines ?s0 _] => destruct (mrun_lines s0 (lines_of rest)) as [s| |] eqn:E end;
    cbn [bind] in H; try discriminate.
  eapply mrun_lines_ok; eassumption.
Qed.

Lemma media_ok_items : forall input p, parse_media input = Ok p ->
  exists rest, body input = Ok rest /\
    forall r, In r (lines_of rest) -> exists l, r = Ok l /\ media_item_ok l.
Proof.
  intros input p H. unfold parse_media, parse_media_with in H. unfold body.
  destruct (tag input pfx_ExtM3u) as [rest| |]; cbn [bind] in H; try discriminate.
  exists rest. split; [reflexivity|]. unfold parse_items in H.
  match type of H with context [run_lines ?s0 _] => destruct (run_lines s0 (lines_of rest)) as [s| |] eqn:E end;
    cbn [bind] in H; try discriminate.
  eapply run_lines_ok; eassumption.
Qed.

(* table facts: read off the generated foreign-tag lists *)
Lemma target_is_foreign_to_master : in_kinds K_ExtXTargetDuration master_rejects = true.
Proof. vm_compute. reflexivity. Qed.

Lemma exclusive : forall input p q, parse_media input = Ok p -> parse_master input = Ok q -> False.
Proof.
  intros input p q Hm Ha.
  destruct (media_ok_has_target _ _ Hm) as [rest [secs [Hb Hin]]].
  destruct (master_ok_items _ _ Ha) as [rest' [Hb' Hall]].
  rewrite Hb in Hb'. inversion Hb'; subst rest'.
  destruct (Hall _ Hin) as [l [Hl Hok]]. inversion Hl; subst l.
  unfold master_item_ok in Hok. cbn [kind_of] in Hok.
  rewrite target_is_foreign_to_master in Hok. discriminate.
Qed.

Lemma header_needed : forall input rest, body input = Ok rest ->
  starts_with pfx_ExtM3u (trim input) = true.
Proof.
  intros input rest H. unfold body, tag in H.
  destruct (strip_prefix pfx_ExtM3u (trim input)) as [r|] eqn:E; [|discriminate].
  clear H. revert E. generalize (trim input). generalize pfx_ExtM3u.
  induction s as [|x p IH]; intros [|y s] E; simpl in *; try reflexivity; try discriminate.
  destruct (x =? y)%N; [|discriminate]. simpl. eauto.
Qed.
