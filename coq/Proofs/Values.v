(* Values.v — text round trips of the value types: integers, hex, byte ranges, resolution,
   channels, enums, IVs, protocol versions. *)
From hls Require Import Base Float Lex Kinds Types Tags Line Keys Media.
From hls.Generated Require Import Tables.
From hls.Proofs Require Import EqFacts Build.
From Coq Require Import Lia ZifyN ZifyBool ZifyNat.
Ltac Zify.zify_post_hook ::= Z.div_mod_to_equations.
Open Scope N_scope.

(* ---------- unsigned integers ---------- *)
Lemma is_digit_digit : forall d, d < 10 -> is_digit (48 + d) = true /\ 48 + d - 48 = d.
Proof. intros d H. unfold is_digit. split; [|lia]. apply andb_true_iff. split; apply N.leb_le; lia. Qed.

Lemma print_uint_fuel_spec : forall f n acc a, n < 10 ^ N.of_nat f -> (0 < f)%nat ->
  exists k, digits_val (print_uint_fuel f n acc) a = digits_val acc (a * 10 ^ k + n) /\ 1 <= k.
Proof.
  induction f as [|f IH]; intros n acc a Hn Hf; [lia|].
  cbn [print_uint_fuel]. destruct (n <? 10) eqn:E.
  - apply N.ltb_lt in E. exists 1. split; [|lia].
    cbn [digits_val]. assert (Hm : n mod 10 = n) by (apply N.mod_small; assumption). rewrite Hm.
    destruct (is_digit_digit n E) as [Hd He]. rewrite Hd, He. f_equal; try (simpl (10 ^ 1)); lia.
  - apply N.ltb_ge in E.
    assert (Hf' : (0 < f)%nat).
    { destruct f; [|lia]. simpl in Hn. lia. }
    assert (Hn' : n / 10 < 10 ^ N.of_nat f).
    { replace (N.of_nat (S f)) with (N.succ (N.of_nat f)) in Hn by lia.
      rewrite N.pow_succ_r' in Hn. apply N.div_lt_upper_bound; lia. }
    destruct (IH (n / 10) ((48 + n mod 10) :: acc) a Hn' Hf') as [k [Hk Hk1]].
    exists (k + 1). split; [|lia]. rewrite Hk. cbn [digits_val].
    assert (Hlt : n mod 10 < 10) by (apply N.mod_lt; lia).
    destruct (is_digit_digit (n mod 10) Hlt) as [Hd He]. rewrite Hd, He. f_equal.
    rewrite N.pow_add_r. simpl (10 ^ 1). lia.
Qed.

Lemma pow2_le_pow10 : forall k, 2 ^ k <= 10 ^ k.
Proof. intros. apply N.pow_le_mono_l. lia. Qed.

Theorem digits_print_uint : forall n, digits_val (print_uint n) 0 = Some n.
Proof.
  intros n. unfold print_uint.
  assert (Hn : n < 10 ^ N.of_nat (S (N.to_nat (N.log2 n)))).
  { replace (N.of_nat (S (N.to_nat (N.log2 n)))) with (N.succ (N.log2 n)) by lia.
    destruct (N.eq_dec n 0) as [->|Hz]; [simpl; lia|].
    eapply N.lt_le_trans; [|apply pow2_le_pow10].
    apply N.log2_spec. lia. }
  destruct (print_uint_fuel_spec _ n [] 0 Hn) as [k [Hk _]]; [lia|].
  rewrite Hk. simpl. reflexivity.
Qed.

Lemma print_uint_fuel_head : forall f n acc, (0 < f)%nat ->
  exists d r, print_uint_fuel f n acc = d :: r /\ is_digit d = true.
Proof.
  induction f as [|f IH]; intros n acc Hf; [lia|]. cbn [print_uint_fuel].
  destruct (n <? 10) eqn:E.
  - apply N.ltb_lt in E. eexists. eexists. split; [reflexivity|].
    rewrite (N.mod_small n 10 E). apply (is_digit_digit n E).
  - destruct f.
    + simpl. eexists. eexists. split; [reflexivity|].
      assert (Hlt : n mod 10 < 10) by (apply N.mod_lt; lia). apply (is_digit_digit _ Hlt).
    + apply IH. lia.
Qed.
Lemma print_uint_head : forall n, exists d r, print_uint n = d :: r /\ is_digit d = true.
Proof. intros. unfold print_uint. apply print_uint_fuel_head. lia. Qed.

Theorem parse_print_uint : forall w n, n < 2 ^ w -> parse_uint w (print_uint n) = Some n.
Proof.
  intros w n H. unfold parse_uint.
  destruct (print_uint_head n) as [d [r [E Hd]]].
  assert (Hne : (d =? 43) = false).
  { apply N.eqb_neq. intros ->. vm_compute in Hd. discriminate. }
  pose proof (digits_print_uint n) as Hv. rewrite E in *.
  unfold strip_plus. rewrite Hne. cbv zeta. rewrite Hv. apply N.ltb_lt in H. rewrite H. reflexivity.
Qed.

(* all characters of a printed integer are digits *)
Lemma print_uint_fuel_digits : forall f n acc, forallb is_digit acc = true ->
  forallb is_digit (print_uint_fuel f n acc) = true.
Proof.
  induction f as [|f IH]; intros n acc H; [exact H|]. cbn [print_uint_fuel].
  assert (Hlt : n mod 10 < 10) by (apply N.mod_lt; lia).
  assert (Hacc : forallb is_digit ((48 + n mod 10) :: acc) = true).
  { cbn [forallb]. rewrite (proj1 (is_digit_digit _ Hlt)). exact H. }
  destruct (n <? 10); [exact Hacc | apply IH; exact Hacc].
Qed.
Lemma print_uint_digits : forall n, forallb is_digit (print_uint n) = true.
Proof. intros. unfold print_uint. apply print_uint_fuel_digits. reflexivity. Qed.

(* ---------- splitting at a separator that is not a digit ---------- *)
Lemma split_once_digits : forall c a b, is_digit c = false -> forallb is_digit a = true ->
  split_once c (a ++ c :: b) = Some (a, b).
Proof.
  intros c. induction a as [|x a IH]; simpl; intros b Hc Ha.
  - rewrite N.eqb_refl. reflexivity.
  - apply andb_true_iff in Ha. destruct Ha as [Hx Ha].
    destruct (N.eqb_spec x c) as [->|_]; [congruence|]. rewrite (IH b Hc Ha). reflexivity.
Qed.
Lemma split_once_none_digits : forall c a, is_digit c = false -> forallb is_digit a = true -> split_once c a = None.
Proof.
  intros c. induction a as [|x a IH]; simpl; intros Hc Ha; [reflexivity|].
  apply andb_true_iff in Ha. destruct Ha as [Hx Ha].
  destruct (N.eqb_spec x c) as [->|_]; [congruence|]. rewrite (IH Hc Ha). reflexivity.
Qed.

(* ---------- ByteRange ---------- *)
Theorem byte_range_roundtrip : forall r,
  br_end r < two64 -> (match br_start r with Some s => s <= br_end r | None => True end) ->
  parse_byte_range (print_byte_range r) = Ok r.
Proof.
  intros [st e] He Hs. cbn [br_start br_end] in *.
  unfold print_byte_range, parse_byte_range, splitn2, br_len. cbn [br_start br_end].
  assert (H2 : forall x, x <= e -> x < 2 ^ 64) by (intros; unfold two64 in He; lia).
  destruct st as [s|].
  - rewrite split_once_digits by (try reflexivity; apply print_uint_digits).
    unfold parse_usize. rewrite (parse_print_uint 64 (e - s)) by (apply H2; lia). cbn [of_opt bind rmap].
    rewrite (parse_print_uint 64 s) by (apply H2; lia). cbn [of_opt bind rmap].
    apply N.ltb_lt in He.
    replace (s + (e - s)) with e by lia.
    rewrite He. reflexivity.
  - rewrite app_nil_r. rewrite split_once_none_digits by (try reflexivity; apply print_uint_digits).
    unfold parse_usize. rewrite N.sub_0_r. rewrite (parse_print_uint 64 e) by (apply H2; lia). cbn [of_opt bind].
    apply N.ltb_lt in He. rewrite N.add_0_l, He. reflexivity.
Qed.

(* ---------- Resolution, Channels ---------- *)
Theorem resolution_roundtrip : forall w h, w < two64 -> h < two64 ->
  parse_resolution (print_resolution (w, h)) = Ok (w, h).
Proof.
  intros w h Hw Hh. unfold print_resolution, parse_resolution, splitn2. cbn [fst snd].
  rewrite split_once_digits by (try reflexivity; apply print_uint_digits).
  unfold parse_usize. rewrite (parse_print_uint 64 w), (parse_print_uint 64 h) by (unfold two64 in *; lia). reflexivity.
Qed.
Theorem channels_roundtrip : forall c, ch_number c < two64 -> parse_channels (print_channels c) = Ok c.
Proof.
  intros [n j] H. cbn [ch_number] in H. unfold print_channels, parse_channels. cbn [ch_number ch_joc]. destruct j.
  - rewrite split_once_digits by (try reflexivity; apply print_uint_digits).
    unfold parse_u64. rewrite (parse_print_uint 64 n) by (unfold two64 in *; lia). reflexivity.
  - rewrite app_nil_r. rewrite split_once_none_digits by (try reflexivity; apply print_uint_digits).
    unfold parse_u64. rewrite (parse_print_uint 64 n) by (unfold two64 in *; lia). reflexivity.
Qed.

(* ---------- hex ---------- *)
Lemma hex_digit_val : forall u v, v < 16 -> hex_val (hex_digit u v) = Some v.
Proof.
  intros u v H. unfold hex_digit, hex_val, is_digit.
  destruct (v <? 10) eqn:E.
  - apply N.ltb_lt in E. replace ((48 <=? 48 + v) && (48 + v <=? 57)) with true
      by (symmetry; apply andb_true_iff; split; apply N.leb_le; lia). f_equal. lia.
  - apply N.ltb_ge in E. destruct u.
    + replace ((48 <=? 55 + v) && (55 + v <=? 57)) with false
        by (symmetry; apply andb_false_iff; right; apply N.leb_gt; lia).
      replace ((97 <=? 55 + v) && (55 + v <=? 102)) with false
        by (symmetry; apply andb_false_iff; left; apply N.leb_gt; lia).
      replace ((65 <=? 55 + v) && (55 + v <=? 70)) with true
        by (symmetry; apply andb_true_iff; split; apply N.leb_le; lia). f_equal. lia.
    + replace ((48 <=? 87 + v) && (87 + v <=? 57)) with false
        by (symmetry; apply andb_false_iff; right; apply N.leb_gt; lia).
      replace ((97 <=? 87 + v) && (87 + v <=? 102)) with true
        by (symmetry; apply andb_true_iff; split; apply N.leb_le; lia). f_equal. lia.
Qed.
Theorem hex_roundtrip : forall u bs, forallb (fun b => b <? 256) bs = true ->
  hex_decode (hex_encode u bs) = Some bs.
Proof.
  induction bs as [|b bs IH]; simpl; intros H; [reflexivity|].
  apply andb_true_iff in H. destruct H as [Hb Hbs]. apply N.ltb_lt in Hb.
  rewrite !hex_digit_val by (try apply N.mod_lt; try apply N.div_lt_upper_bound; lia).
  rewrite (IH Hbs). f_equal. f_equal. lia.
Qed.
Lemma hex_encode_length : forall u bs, List.length (hex_encode u bs) = (2 * List.length bs)%nat.
Proof. induction bs; simpl; lia. Qed.
Lemma hex_digit_ascii : forall u v, v < 16 -> hex_digit u v < 128.
Proof. intros u v H. unfold hex_digit. destruct (v <? 10); destruct u; lia. Qed.
Lemma byte_len_ascii : forall s, forallb (fun c => c <? 128) s = true -> byte_len s = N.of_nat (List.length s).
Proof.
  induction s as [|c s IH]; simpl; intros H; [reflexivity|].
  apply andb_true_iff in H. destruct H as [Hc Hs]. unfold utf8_len. rewrite Hc. rewrite (IH Hs). lia.
Qed.
Lemma hex_encode_ascii : forall u bs, forallb (fun b => b <? 256) bs = true ->
  forallb (fun c => c <? 128) (hex_encode u bs) = true.
Proof.
  induction bs as [|b bs IH]; simpl; intros H; [reflexivity|].
  apply andb_true_iff in H. destruct H as [Hb Hbs]. apply N.ltb_lt in Hb.
  rewrite (IH Hbs), andb_true_r. apply andb_true_iff.
  split; apply N.ltb_lt; apply hex_digit_ascii; [apply N.div_lt_upper_bound; lia | apply N.mod_lt; lia].
Qed.

Theorem iv_roundtrip : forall bs, List.length bs = 16%nat -> forallb (fun b => b <? 256) bs = true ->
  parse_iv (s_0x ++ hex_encode false bs) = Ok (IvAes bs).
Proof.
  intros bs Hl Hb. unfold parse_iv.
  assert (Hsp : strip_prefix s_0x (s_0x ++ hex_encode false bs) = Some (hex_encode false bs)) by reflexivity.
  rewrite Hsp.
  rewrite (byte_len_ascii _ (hex_encode_ascii false bs Hb)), hex_encode_length, Hl.
  assert (H32 : (N.of_nat (2 * 16) =? 32) = true) by reflexivity. rewrite H32.
  rewrite (hex_roundtrip false bs Hb). reflexivity.
Qed.

(* ---------- enum tables regenerated from the source: Display and FromStr are inverse ---------- *)
Definition enum_table_ok (tbl : list str) : bool :=
  forallb (fun i => match enum_find tbl (nth i tbl []) 0 with Some j => j =? N.of_nat i | None => false end)
          (seq 0 (List.length tbl)).
Lemma enum_tables_ok :
  enum_table_ok enum_EncryptionMethod = true /\ enum_table_ok enum_MediaType = true
  /\ enum_table_ok enum_HdcpLevel = true /\ enum_table_ok enum_InStreamId = true.
Proof. vm_compute. repeat split. Qed.
Theorem enum_roundtrip : forall tbl i, enum_table_ok tbl = true -> (i < List.length tbl)%nat ->
  enum_parse tbl (enum_print tbl (N.of_nat i)) = Ok (N.of_nat i).
Proof.
  intros tbl i Hok Hi. unfold enum_table_ok in Hok. rewrite forallb_forall in Hok.
  specialize (Hok i). rewrite in_seq in Hok. specialize (Hok ltac:(lia)).
  unfold enum_parse, enum_print. rewrite Nnat.Nat2N.id.
  destruct (enum_find tbl (nth i tbl []) 0) as [j|]; [|discriminate].
  apply N.eqb_eq in Hok. subst j. reflexivity.
Qed.
Lemma enum_sizes : List.length enum_EncryptionMethod = 2%nat /\ List.length enum_MediaType = 4%nat
  /\ List.length enum_HdcpLevel = 2%nat /\ List.length enum_InStreamId = 67%nat.
Proof. vm_compute. repeat split. Qed.

(* ---------- protocol version ---------- *)
Theorem protocol_version_roundtrip : forall v, 1 <= v <= 7 ->
  parse_protocol_version (print_protocol_version v) = Ok v.
Proof.
  intros v H. assert (E : v = 1 \/ v = 2 \/ v = 3 \/ v = 4 \/ v = 5 \/ v = 6 \/ v = 7) by lia.
  destruct E as [->|[->|[->|[->|[->|[->| ->]]]]]]; reflexivity.
Qed.
