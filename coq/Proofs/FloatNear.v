(* FloatNear.v — rounding a positive rational that lies within a quarter of a unit in the last place of a canonical value
   returns that value (also across a binade boundary and at the subnormal boundary). *)
From hls Require Import Base Float.
From hls.Proofs Require Import FloatRound.
From Coq Require Import Lia.
Local Open Scope Z_scope.

Lemma flog2_ge : forall n d F K, 0 < n -> 0 < d -> is_flog2 n d F -> ge2 n d K -> K <= F.
Proof.
  intros n d F K Hn Hd [G L] H. destruct (Z_lt_le_dec F K) as [C|C]; [|assumption]. exfalso.
  apply (ge2_lt2 n d (F + 1) Hd). split; [eapply ge2_mono; [| | |exact H]; lia | exact L].
Qed.
Lemma flog2_lt : forall n d F K, 0 < n -> 0 < d -> is_flog2 n d F -> lt2 n d K -> F < K.
Proof.
  intros n d F K Hn Hd [G L] H. destruct (Z_lt_le_dec F K) as [C|C]; [assumption|]. exfalso.
  apply (ge2_lt2 n d K Hd). split; [eapply ge2_mono; [| | |exact G]; lia | exact H].
Qed.

(* the same rational at two neighbouring binary scales *)
Lemma sc_shift : forall n d E, 0 < n -> 0 < d ->
  sc_num n (E - 1) * sc_den n d E = 2 * sc_num n E * sc_den n d (E - 1).
Proof.
  intros n d E Hn Hd. unfold sc_num. destruct (Z_lt_le_dec E 0) as [C|C].
  - destruct (scaled_neg n d E C) as [_ [_ D1]]. destruct (scaled_neg n d (E - 1) ltac:(lia)) as [_ [_ D2]].
    rewrite D1, D2. replace (E <? 0) with true by (symmetry; apply Z.ltb_lt; lia).
    replace (E - 1 <? 0) with true by (symmetry; apply Z.ltb_lt; lia).
    cbv iota. replace (- (E - 1)) with (1 + - E) by lia. rewrite pow2_split by lia. change (2 ^ 1) with 2. ring.
  - destruct (Z.eq_dec E 0) as [-> | N0].
    + destruct (scaled_nonneg n d 0 ltac:(lia)) as [_ [_ D1]]. destruct (scaled_neg n d (0 - 1) ltac:(lia)) as [_ [_ D2]].
      rewrite D1, D2. change (0 - 1 <? 0) with true. change (0 <? 0) with false. cbv iota. change (2 ^ (- (0 - 1))) with 2. change (2 ^ 0) with 1. ring.
    + destruct (scaled_nonneg n d E C) as [_ [_ D1]]. destruct (scaled_nonneg n d (E - 1) ltac:(lia)) as [_ [_ D2]].
      rewrite D1, D2. replace (E <? 0) with false by (symmetry; apply Z.ltb_ge; lia).
      replace (E - 1 <? 0) with false by (symmetry; apply Z.ltb_ge; lia).
      cbv iota. replace (2 ^ E) with (2 ^ (1 + (E - 1))) by (f_equal; lia). rewrite pow2_split by lia. change (2 ^ 1) with 2. ring.
Qed.

Lemma sc_ge_pow : forall n d E j, 0 < n -> 0 < d -> 0 <= j -> 2 ^ j * sc_den n d E <= sc_num n E -> ge2 n d (j + E).
Proof.
  intros n d E j Hn Hd Hj H. apply (q_ge_pow n d E j Hn Hd Hj).
  destruct (sc_qr n d E Hn Hd) as [D [_ [_ Q]]]. rewrite Q. apply div_ge_iff; assumption.
Qed.
Lemma sc_lt_pow : forall n d E j, 0 < n -> 0 < d -> 0 <= j -> sc_num n E < 2 ^ j * sc_den n d E -> lt2 n d (j + E).
Proof.
  intros n d E j Hn Hd Hj H. apply (q_lt_pow n d E j Hn Hd Hj).
  destruct (sc_qr n d E Hn Hd) as [D [_ [_ Q]]]. rewrite Q. apply Z.div_lt_upper_bound; lia.
Qed.

Lemma m_of_at : forall f n d N, 0 < n -> 0 < d ->
  - sc_den n d (e_of f n d) < 2 * sc_num n (e_of f n d) - 2 * N * sc_den n d (e_of f n d) < sc_den n d (e_of f n d) ->
  m_of f n d = N.
Proof.
  intros f n d N Hn Hd H. unfold m_of. cbv zeta. destruct (sc_qr n d (e_of f n d) Hn Hd) as [D [E [R _]]].
  apply rne_unique; [assumption | assumption |]. rewrite <- E. exact H.
Qed.

Theorem rnd_near_canonical : forall f m e n d, 2 <= prec f -> canonical f m e -> 0 < n -> 0 < d ->
  - sc_den n d (e - 2) < sc_num n (e - 2) - 4 * m * sc_den n d (e - 2) < sc_den n d (e - 2) ->
  rnd_pos f false n d = FFin false m e.
Proof.
  intros f m e n d Hp [[Hm1 Hm2] [[He1 He2] Hsub]] Hn Hd H.
  set (p := prec f) in *.
  destruct (sc_qr n d (e - 2) Hn Hd) as [DB _]. set (A := sc_num n (e - 2)) in *. set (B := sc_den n d (e - 2)) in *.
  pose proof (sc_shift n d (e - 1) Hn Hd) as S1. replace (e - 1 - 1) with (e - 2) in S1 by lia. fold A B in S1.
  pose proof (sc_shift n d e Hn Hd) as S0.
  destruct (sc_qr n d (e - 1) Hn Hd) as [D1 _]. destruct (sc_qr n d e Hn Hd) as [D0 _].
  set (A1 := sc_num n (e - 1)) in *. set (B1 := sc_den n d (e - 1)) in *.
  set (A0 := sc_num n e) in *. set (B0 := sc_den n d e) in *.
  pose proof (e1_spec p n d ltac:(lia) Hn Hd) as FL. set (e1 := e1_of p n d) in *.
  assert (Pp : 2 ^ p = 2 * 2 ^ (p - 1)).
  { replace p with (1 + (p - 1)) at 1 by lia. rewrite pow2_split by lia. reflexivity. }
  pose proof (pow2_pos (p - 1) ltac:(lia)) as Ppos.
  set (P := 2 ^ (p - 1)) in *.
  (* near at scale e-1 and e *)
  assert (N1 : - B1 < 2 * A1 - 2 * (2 * m) * B1 < B1).
  { assert (X : (2 * A1 - 4 * m * B1) * B = (A - 4 * m * B) * B1) by (rewrite Z.mul_sub_distr_r; rewrite <- S1; ring).
    split; apply Z.mul_lt_mono_pos_r with (p := B); try assumption; nia. }
  assert (N0 : - B0 < 2 * A0 - 2 * m * B0 < B0).
  { assert (X : (2 * A0 - 2 * m * B0) * B1 = (A1 - 2 * m * B1) * B0) by (rewrite Z.mul_sub_distr_r; rewrite <- S0; ring).
    split; apply Z.mul_lt_mono_pos_r with (p := B1); try assumption; nia. }
  (* upper bound on the exponent: y < 2^(p+e) *)
  assert (U : e1 <= e).
  { assert (L : lt2 n d (p + e)).
    { replace (p + e) with ((p + 2) + (e - 2)) by lia. apply sc_lt_pow; try assumption; try lia. fold A B.
      replace (p + 2) with (2 + p) by lia. rewrite pow2_split by lia. change (2 ^ 2) with 4. rewrite Pp. nia. }
    pose proof (flog2_lt n d _ _ Hn Hd FL L). lia. }
  rewrite rnd_pos_unfold.
  assert (Fin : forall E M, e_of f n d = E -> m_of f n d = M -> (M = m /\ E = e) \/ (M = 2 ^ prec f /\ m = P /\ E = e - 1) ->
                finish_round f false (m_of f n d) (e_of f n d) = FFin false m e).
  { intros E M -> -> [[-> ->] | [-> [Em ->]]]; unfold finish_round.
    - replace (m =? 0) with false by (symmetry; apply Z.eqb_neq; lia).
      replace (m =? 2 ^ prec f) with false by (symmetry; apply Z.eqb_neq; fold p; lia).
      replace (emax f <? e) with false by (symmetry; apply Z.ltb_ge; lia). reflexivity.
    - fold p. replace (2 ^ p =? 0) with false by (symmetry; apply Z.eqb_neq; lia).
      rewrite Z.eqb_refl. replace (e - 1 + 1) with e by lia.
      replace (emax f <? e) with false by (symmetry; apply Z.ltb_ge; lia). fold P. rewrite Em. reflexivity. }
  destruct (Z_lt_le_dec m P) as [Sub|Nor].
  - (* subnormal value: the exponent is clamped to emin = e *)
    specialize (Hsub Sub). 
    assert (L : lt2 n d (p + e - 1)).
    { replace (p + e - 1) with ((p + 1) + (e - 2)) by lia. apply sc_lt_pow; try assumption; try lia. fold A B.
      replace (p + 1) with (2 + (p - 1)) by lia. rewrite pow2_split by lia. change (2 ^ 2) with 4. fold P. nia. }
    pose proof (flog2_lt n d _ _ Hn Hd FL L).
    assert (EE : e_of f n d = e) by (unfold e_of; fold p e1; lia).
    apply (Fin e m EE); [|left; auto]. apply m_of_at; try assumption. rewrite EE. fold A0 B0. exact N0.
  - (* normal value *)
    assert (Lo : e - 1 <= e1).
    { assert (G : ge2 n d (p + e - 2)).
      { replace (p + e - 2) with (p + (e - 2)) by lia. apply sc_ge_pow; try assumption; try lia. fold A B. rewrite Pp. nia. }
      pose proof (flog2_ge n d _ _ Hn Hd FL G). lia. }
    destruct (Z.eq_dec (Z.max e1 (emin f)) e) as [EE|NE].
    + assert (EE' : e_of f n d = e) by (unfold e_of; fold p e1; exact EE).
      apply (Fin e m EE'); [|left; auto]. apply m_of_at; try assumption. rewrite EE'. fold A0 B0. exact N0.
    + assert (E1 : e1 = e - 1) by lia. assert (Eg : emin f < e) by lia.
      assert (EE' : e_of f n d = e - 1) by (unfold e_of; fold p e1; lia).
      (* then y < 2^(p-1+e), which forces m = 2^(p-1) *)
      assert (Lt : lt2 n d (e1 + p - 1 + 1)) by (destruct FL; assumption).
      replace (e1 + p - 1 + 1) with ((p + 1) + (e - 2)) in Lt by lia.
      apply (q_lt_pow n d (e - 2) (p + 1) Hn Hd ltac:(lia)) in Lt.
      destruct (sc_qr n d (e - 2) Hn Hd) as [_ [_ [_ Q]]]. fold A B in Q. rewrite Q in Lt.
      assert (A < 2 ^ (p + 1) * B).
      { destruct (Z_lt_le_dec A (2 ^ (p + 1) * B)) as [C|C]; [assumption|]. exfalso.
        assert (2 ^ (p + 1) <= A / B) by (apply div_ge_iff; assumption). lia. }
      replace (p + 1) with (2 + (p - 1)) in H0 by lia. rewrite pow2_split in H0 by lia. change (2 ^ 2) with 4 in H0. fold P in H0.
      assert (Em : m = P) by nia.
      apply (Fin (e - 1) (2 ^ prec f) EE'); [|right; auto].
      apply m_of_at; try assumption. rewrite EE'. fold A1 B1. fold p. rewrite Pp. fold P. rewrite <- Em.
      replace (2 * (2 * m) * B1) with (2 * (2 * m) * B1) by ring. lia.
Qed.
