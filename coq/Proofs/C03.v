(* Proofs for C03: the writer/reader duality for EXT-X-KEY scoping.  For a media playlist whose
   per-segment key lists are what a parse can produce, the EXT-X-KEY tags the writer emits make
   the parser reconstruct, for every segment, the same set of keys.  (The ORDER inside a key
   list is not always reproduced: known finding D20.) *)
From hls Require Import Base Float Lex Kinds Types Tags Line Keys Media.
From hls.Generated Require Import Tables.
From hls.Spec Require Import KeySpec.
From hls.Proofs Require Import EqFacts KeysProof C06 Build C11.
From Coq Require Import Permutation Lia.
Open Scope N_scope.

(* ---------- the parser step, from KeysProof ---------- *)
Definition PShape (ks : list xkey) : Prop := KeysProof.Shape same_fmt ks.

Lemma pstep_in : forall ks d x, PShape ks ->
  (In x (key_step ks (Some d)) <-> x = Some d \/ (exists k, x = Some k /\ In x ks /\ same_fmt k d = false)).
Proof.
  intros ks d x H. unfold key_step.
  apply (KeysProof.step_in same_fmt key_eqb); first [exact same_fmt_sym | exact same_fmt_trans | exact key_eqb_eq | exact H].
Qed.
Lemma pstep_shape : forall ks x, PShape ks -> PShape (key_step ks x).
Proof.
  intros ks x H. unfold key_step.
  apply (KeysProof.step_shape same_fmt key_eqb); first [exact same_fmt_sym | exact same_fmt_trans | exact key_eqb_eq | exact H].
Qed.
Lemma pshape_nil : PShape [].
Proof. right. constructor. Qed.
Lemma pshape_marker : PShape [None].
Proof. left. reflexivity. Qed.
Lemma pshape_none_alone : forall ks k, PShape ks -> In (Some k) ks -> ~ In None ks.
Proof.
  intros ks k [-> | Hd] Hin; [destruct Hin as [H | []]; discriminate|].
  eapply KeysProof.distinct_no_none. exact Hd.
Qed.

(* ---------- the writer step ---------- *)
Definition stripped (k : xkey) : Prop := match k with Some d => strip_derived d = d | None => True end.

Lemma write_key_spec : forall avail d, wdistinct avail -> strip_derived d = d ->
  let r := write_key avail (Some d) in
  (forall k, In (Some k) (fst r) <-> k = d \/ (In (Some k) avail /\ same_fmt k d = false))
  /\ wdistinct (fst r) /\ ~ In None (fst r)
  /\ (snd r = [Some d] \/ (snd r = [] /\ In (Some d) avail)).
Proof.
  intros avail d Hw Hs. cbv zeta. unfold write_key. rewrite Hs.
  set (av1 := set_remove None avail).
  assert (Hw1 : wdistinct av1) by (apply wdistinct_remove; assumption).
  assert (Hn1 : ~ In None av1) by (intros H; apply set_remove_in in H; tauto).
  assert (Hs1 : forall k, In (Some k) av1 <-> In (Some k) avail).
  { intros k. unfold av1. rewrite set_remove_in. split; [tauto | intros H; split; [assumption | discriminate]]. }
  destruct (set_mem (Some d) av1) eqn:Em.
  - (* already announced *)
    assert (Hin : In (Some d) av1).
    { unfold set_mem in Em. apply existsb_exists in Em. destruct Em as [y [Hy E]]. apply xkey_eqb_eq in E. subst y. assumption. }
    cbn [fst snd]. split; [|split; [assumption|split; [assumption|right; split; [reflexivity | apply Hs1; assumption]]]].
    intros k. rewrite Hs1. split.
    + intros Hk. destruct (same_fmt k d) eqn:E; [left | right; tauto].
      apply Hw; [assumption | apply Hs1; assumption | assumption].
    + intros [-> | [H _]]; [apply Hs1; assumption | assumption].
  - (* new: append, drop the key of the same format *)
    assert (Hnin : ~ In (Some d) av1).
    { intros H. unfold set_mem in Em. assert (existsb (xkey_eqb (Some d)) av1 = true); [|congruence].
      apply existsb_exists. exists (Some d). split; [assumption | apply xkey_eqb_eq; reflexivity]. }
    match goal with |- context [find_first ?p (av1 ++ [Some d])] => set (P := p); destruct (find_first P (av1 ++ [Some d])) as [old|] eqn:Eo end;
      cbn [fst snd].
    + destruct (find_first_in _ _ _ _ Eo) as [Hino Hpo]. unfold P in Hpo.
      destruct old as [o|]; [|discriminate]. apply andb_true_iff in Hpo. destruct Hpo as [So No].
      apply negb_true_iff in No.
      assert (Ho : In (Some o) av1).
      { apply in_app_or in Hino. destruct Hino as [H | [H | []]]; [assumption|]. inversion H; subst o.
        rewrite (proj2 (xkey_eqb_eq _ _) eq_refl) in No. discriminate. }
      assert (Huniq : forall k, In (Some k) av1 -> same_fmt k d = true -> k = o).
      { intros k Hk Hsk. apply Hw1; try assumption. apply same_fmt_trans with d; [assumption|]. rewrite same_fmt_sym. assumption. }
      split; [|split; [|split; [|left; reflexivity]]].
      * intros k. rewrite set_remove_in, in_app_iff. simpl. rewrite Hs1. split.
        -- intros [[H | [H | []]] Hne]; [|left; congruence].
           right. split; [assumption|]. destruct (same_fmt k d) eqn:E; [|reflexivity].
           exfalso. apply Hne. f_equal. apply Huniq; [apply Hs1; assumption | assumption].
        -- intros [-> | [H Hf]].
           ++ split; [right; left; reflexivity|]. intros E. inversion E; subst o.
              rewrite (proj2 (xkey_eqb_eq _ _) eq_refl) in No. discriminate.
           ++ split; [left; assumption|]. intros E. inversion E; subst o. congruence.
      * intros a b Ha Hb Hsab. apply set_remove_in in Ha, Hb. destruct Ha as [Ha Na]. destruct Hb as [Hb Nb].
        apply in_app_or in Ha, Hb.
        assert (Hcase : forall x, In (Some x) av1 -> Some x <> Some o -> same_fmt x d = false).
        { intros x Hx Hne. destruct (same_fmt x d) eqn:E; [|reflexivity]. exfalso. apply Hne. f_equal. apply Huniq; assumption. }
        destruct Ha as [Ha | [Ha | []]]; destruct Hb as [Hb | [Hb | []]].
        -- apply Hw1; assumption.
        -- inversion Hb; subst b. rewrite (Hcase a Ha Na) in Hsab. discriminate.
        -- inversion Ha; subst a. rewrite same_fmt_sym in Hsab. rewrite (Hcase b Hb Nb) in Hsab. discriminate.
        -- congruence.
      * intros H. apply set_remove_in in H. destruct H as [H _]. apply in_app_or in H.
        destruct H as [H | [H | []]]; [tauto | discriminate].
    + assert (Hcase : forall x, In (Some x) av1 -> same_fmt x d = false).
      { intros x Hx. pose proof (find_first_none_all _ _ _ Eo (Some x)) as Hn.
        specialize (Hn ltac:(apply in_or_app; left; assumption)). unfold P in Hn.
        apply andb_false_iff in Hn. destruct Hn as [Hn | Hn]; [assumption|].
        apply negb_false_iff in Hn. assert (E : Some x = Some d) by (apply xkey_eqb_eq; exact Hn).
        inversion E; subst x. tauto. }
      split; [|split; [|split; [|left; reflexivity]]].
      * intros k. rewrite in_app_iff. simpl. rewrite Hs1. split.
        -- intros [H | [H | []]]; [right; split; [assumption | apply Hcase; apply Hs1; assumption] | left; congruence].
        -- intros [-> | [H _]]; [right; left; reflexivity | left; assumption].
      * intros a b Ha Hb Hsab. apply in_app_or in Ha, Hb.
        destruct Ha as [Ha | [Ha | []]]; destruct Hb as [Hb | [Hb | []]].
        -- apply Hw1; assumption.
        -- inversion Hb; subst b. rewrite (Hcase a Ha) in Hsab. discriminate.
        -- inversion Ha; subst a. rewrite same_fmt_sym in Hsab. rewrite (Hcase b Hb) in Hsab. discriminate.
        -- congruence.
      * intros H. apply in_app_or in H. destruct H as [H | [H | []]]; [tauto | discriminate].
Qed.

(* ---------- writer set and parser list stay related ---------- *)
Definition rel (avail cur : list xkey) : Prop := forall k, In (Some k) avail <-> In (Some k) cur.

Lemma key_rel : forall avail cur d, rel avail cur -> wdistinct avail -> PShape cur -> strip_derived d = d ->
  let r := write_key avail (Some d) in
  let cur' := keys_from cur (snd r) in
  rel (fst r) cur' /\ wdistinct (fst r) /\ PShape cur' /\ In (Some d) cur'
  /\ (forall k, In (Some k) (fst r) <-> k = d \/ (In (Some k) avail /\ same_fmt k d = false)).
Proof.
  intros avail cur d Hrel Hw Hp Hs. cbv zeta.
  destruct (write_key_spec avail d Hw Hs) as [Hmem [Hw' [Hnn Hev]]].
  destruct Hev as [Hev | [Hev Hin]]; rewrite Hev; unfold keys_from; cbn [fold_left].
  - split; [|split; [assumption|split; [apply pstep_shape; assumption|split; [|assumption]]]].
    + intros k. rewrite Hmem, (pstep_in cur d (Some k) Hp). split.
      * intros [-> | [H Hf]]; [left; reflexivity|]. right. exists k. split; [reflexivity|]. split; [apply Hrel; assumption | assumption].
      * intros [H | [k' [E [H Hf]]]]; [left; congruence|]. inversion E; subst k'. right. split; [apply Hrel; assumption | assumption].
    + apply (pstep_in cur d (Some d) Hp). left; reflexivity.
  - split; [|split; [assumption|split; [assumption|split; [apply Hrel; assumption | assumption]]]].
    intros k. rewrite Hmem, <- (Hrel k). split.
    + intros [-> | [H _]]; assumption.
    + intros Hk. destruct (same_fmt k d) eqn:E; [left; apply Hw; assumption | right; tauto].
Qed.

(* a key list as a parse produces it: the marker alone, or keys of pairwise different formats *)
Inductive kdistinct : list xkey -> Prop :=
| kd_nil : kdistinct []
| kd_cons : forall d ks, strip_derived d = d -> (forall k, In (Some k) ks -> same_fmt k d = false) ->
                         kdistinct ks -> kdistinct (Some d :: ks).
Definition KShape (K : list xkey) : Prop := K = [None] \/ kdistinct K.

Lemma kdistinct_some : forall ks x, kdistinct ks -> In x ks -> exists d, x = Some d.
Proof. induction 1; simpl; intros Hin; [tauto|]. destruct Hin as [<- | Hin]; eauto. Qed.

Lemma keys_rel : forall K avail cur, kdistinct K -> rel avail cur -> wdistinct avail -> PShape cur ->
  let r := write_keys avail K in
  let cur' := keys_from cur (snd r) in
  rel (fst r) cur' /\ wdistinct (fst r) /\ PShape cur'
  /\ (forall k, In (Some k) (fst r) <-> In (Some k) K \/ (In (Some k) avail /\ forall k', In (Some k') K -> same_fmt k k' = false)).
Proof.
  induction K as [|x K IH]; intros avail cur Hk Hrel Hw Hp; cbv zeta.
  - simpl. split; [assumption|split; [assumption|split; [assumption|]]]. intros k. split; [intros H; right; split; [assumption | intros k' []] | intros [[] | [H _]]; assumption].
  - inversion Hk as [|d ks Hs Hd Hk']; subst. cbn [write_keys].
    destruct (key_rel avail cur d Hrel Hw Hp Hs) as [R1 [W1 [P1 [_ M1]]]].
    destruct (write_key avail (Some d)) as [a1 t1] eqn:E1. cbn [fst snd] in *.
    specialize (IH a1 (keys_from cur t1) Hk' R1 W1 P1). cbv zeta in IH.
    destruct (write_keys a1 K) as [a2 t2] eqn:E2. cbn [fst snd] in *.
    destruct IH as [R2 [W2 [P2 M2]]].
    unfold keys_from in *. rewrite fold_left_app.
    split; [assumption|split; [assumption|split; [assumption|]]].
    intros k. rewrite (M2 k), (M1 k). simpl. split.
    + intros [H | [[-> | [H Hf]] Hall]].
      * left; right; assumption.
      * left; left; reflexivity.
      * right. split; [assumption|]. intros k' [E | Hk2]; [inversion E; subst; assumption | auto].
    + intros [[E | H] | [H Hall]].
      * inversion E; subst k. right. split; [left; reflexivity|]. intros k' Hk2. rewrite same_fmt_sym. apply Hd. assumption.
      * left; assumption.
      * right. split; [right; split; [assumption | apply Hall; left; reflexivity]|]. intros k' Hk2. apply Hall. right; assumption.
Qed.

(* ---------- one segment ---------- *)
Lemma stale_false_covered : forall avail K, stale_keys avail K = false -> existsb is_some K = true ->
  forall o, In (Some o) avail -> exists kk, In (Some kk) K /\ same_fmt kk o = true.
Proof.
  intros avail K Hst Hsome o Ho. unfold stale_keys in Hst. rewrite Hsome in Hst. simpl in Hst.
  destruct (existsb (fun k => match k with Some kk => same_fmt kk o | None => false end) K) eqn:E.
  - apply existsb_exists in E. destruct E as [[kk|] [Hin Hs]]; [eauto | discriminate].
  - exfalso. assert (Ht : existsb (fun old => match old with Some o0 => negb (existsb (fun k => match k with Some kk => same_fmt kk o0 | None => false end) K) | None => false end) avail = true); [|congruence].
    apply existsb_exists. exists (Some o). split; [assumption|]. rewrite E. reflexivity.
Qed.

Lemma segment_duality : forall avail cur K, KShape K -> rel avail cur -> wdistinct avail -> PShape cur ->
  (K = [] -> cur = []) ->
  let r := segment_key_events avail K in
  let cur' := keys_from cur (snd r) in
  rel (fst r) cur' /\ wdistinct (fst r) /\ PShape cur' /\ (forall x, In x cur' <-> In x K).
Proof.
  intros avail cur K HK Hrel Hw Hp Hempty. cbv zeta. unfold segment_key_events.
  destruct HK as [-> | Hd].
  - (* METHOD=NONE *)
    simpl. unfold keys_from; simpl.
    split; [intros k; simpl; split; intros [H | []]; discriminate|].
    split; [intros a b [H | []]; discriminate|]. split; [apply pshape_marker|]. intros x. tauto.
  - destruct K as [|k0 K'].
    + (* no keys at all: nothing written, nothing in effect *)
      rewrite (Hempty eq_refl) in *. simpl. unfold keys_from; simpl.
      split; [assumption|split; [assumption|split; [assumption|tauto]]].
    + assert (Hsome : existsb is_some (k0 :: K') = true) by (inversion Hd; reflexivity).
      destruct (stale_keys avail (k0 :: K')) eqn:Est.
      * (* a format dropped out: METHOD=NONE, then all keys again *)
        assert (R0 : rel [] [None]) by (intros k; simpl; split; [tauto | intros [H | []]; discriminate]).
        assert (W0 : wdistinct []) by (intros a b []).
        pose proof (keys_rel (k0 :: K') [] [None] Hd R0 W0 pshape_marker) as HR. cbv zeta in HR.
        destruct (write_keys [] (k0 :: K')) as [a t] eqn:E. cbn [fst snd] in *.
        destruct HR as [R [W [P M]]].
        assert (Hcur : keys_from cur ([None] ++ t) = keys_from [None] t).
        { unfold keys_from. rewrite fold_left_app. simpl. reflexivity. }
        rewrite Hcur. split; [assumption|split; [assumption|split; [assumption|]]].
        intros x. destruct x as [k|].
        -- rewrite <- (R k), (M k). simpl. tauto.
        -- split.
           ++ intros Hn. exfalso. inversion Hd as [|d ks Hs Hdd Hk']; subst.
              assert (Hin : In (Some d) (keys_from [None] t)) by (apply R; apply M; left; left; reflexivity).
              exact (pshape_none_alone _ _ P Hin Hn).
           ++ intros Hn. destruct (kdistinct_some _ _ Hd Hn) as [d E']. discriminate.
      * (* only changed keys are written *)
        pose proof (keys_rel (k0 :: K') avail cur Hd Hrel Hw Hp) as HR. cbv zeta in HR.
        destruct (write_keys avail (k0 :: K')) as [a t] eqn:E. cbn [fst snd] in *.
        destruct HR as [R [W [P M]]]. rewrite app_nil_l.
        split; [assumption|split; [assumption|split; [assumption|]]].
        intros x. destruct x as [k|].
        -- rewrite <- (R k), (M k). split; [|tauto].
           intros [H | [H Hall]]; [assumption|]. exfalso.
           destruct (stale_false_covered _ _ Est Hsome k H) as [kk [Hkk Hs]].
           specialize (Hall kk Hkk). rewrite same_fmt_sym in Hall. congruence.
        -- split.
           ++ intros Hn. exfalso. inversion Hd as [|d ks Hs Hdd Hk']; subst.
              assert (Hin : In (Some d) (keys_from cur t)) by (apply R; apply M; left; left; reflexivity).
              exact (pshape_none_alone _ _ P Hin Hn).
           ++ intros Hn. destruct (kdistinct_some _ _ Hd Hn) as [d E']. discriminate.
Qed.

(* ---------- all segments ---------- *)
Fixpoint reparse_keys (avail cur : list xkey) (Ks : list (list xkey)) : list (list xkey) :=
  match Ks with
  | [] => []
  | K :: r => let '(a, ev) := segment_key_events avail K in
              let c := keys_from cur ev in c :: reparse_keys a c r
  end.
(* key lists as consecutive segments of one parse can have them: keys never vanish without a
   METHOD=NONE, so an empty list is only possible before the first key *)
Fixpoint chain_ok (prev_empty : bool) (Ks : list (list xkey)) : Prop :=
  match Ks with
  | [] => True
  | K :: r => KShape K /\ (K = [] -> prev_empty = true) /\ chain_ok (is_nil K) r
  end.

Lemma duality_gen : forall Ks avail cur pe, chain_ok pe Ks -> rel avail cur -> wdistinct avail -> PShape cur ->
  (pe = true -> cur = []) ->
  Forall2 (fun c K => forall x, In x c <-> In x K) (reparse_keys avail cur Ks) Ks.
Proof.
  induction Ks as [|K Ks IH]; intros avail cur pe Hc Hrel Hw Hp Hpe; [constructor|].
  destruct Hc as [HK [He Hc]]. cbn [reparse_keys].
  pose proof (segment_duality avail cur K HK Hrel Hw Hp (fun E => Hpe (He E))) as HS. cbv zeta in HS.
  destruct (segment_key_events avail K) as [a ev]. cbn [fst snd] in HS.
  destruct HS as [R [W [P M]]]. constructor; [exact M|].
  apply (IH a (keys_from cur ev) (is_nil K) Hc R W P).
  intros E. destruct K; [|discriminate]. destruct (keys_from cur ev) as [|y l]; [reflexivity|].
  exfalso. apply (proj1 (M y)). left; reflexivity.
Qed.

Theorem key_duality : forall Ks, chain_ok true Ks ->
  Forall2 (fun c K => forall x, In x c <-> In x K) (reparse_keys [] [] Ks) Ks.
Proof.
  intros Ks H. apply (duality_gen Ks [] [] true H).
  - intros k; tauto.
  - intros a b [].
  - apply pshape_nil.
  - reflexivity.
Qed.

(* ---------- parse results are in the theorem's domain ---------- *)
Lemma key_step_nonempty : forall ks x, key_step ks x <> [].
Proof.
  intros ks [d|]; unfold key_step, key_step_gen; [|discriminate].
  destruct (find_first (key_hit same_fmt d) ks); intros H; apply app_eq_nil in H; destruct H; discriminate.
Qed.
Lemma keys_from_nonempty : forall h ks, ks <> [] -> keys_from ks h <> [].
Proof.
  induction h as [|x h IH]; simpl; intros ks H; [assumption|].
  unfold keys_from in *. simpl. apply IH. apply key_step_nonempty.
Qed.

Lemma distinct_kdistinct : forall ks, KeysProof.distinct same_fmt ks -> Forall stripped ks -> kdistinct ks.
Proof.
  induction 1 as [|k ks Hk Hd IH]; intros Hs; [constructor|].
  inversion Hs; subst. constructor; [assumption| |apply IH; assumption].
  intros k' Hin. apply Hk. assumption.
Qed.
Theorem parsed_keys_shape : forall h, Forall stripped (keys_after h) -> KShape (keys_after h).
Proof.
  intros h Hs. rewrite keys_after_unfold in *.
  destruct (KeysProof.run_shape same_fmt key_eqb same_fmt_sym same_fmt_trans key_eqb_eq h) as [E | Hd].
  - left. exact E.
  - right. apply distinct_kdistinct; assumption.
Qed.
