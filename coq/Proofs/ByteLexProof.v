(* ByteLexProof.v — the index-level model of the tokenizer (Model/ByteLex.v: byte offsets, slicing that panics off a
   character boundary or out of range, checked usize subtraction) never panics and computes exactly what the structural
   model (Model/Lex.v) computes: refinement, for every string. *)
From hls Require Import Base Lex ByteLex.
From hls.Proofs Require Import EqFacts.
From Coq Require Import Lia.
Open Scope N_scope.

Lemma byte_len_app' : forall a b, byte_len (a ++ b) = byte_len a + byte_len b.
Proof. induction a as [|c a IH]; simpl; intros; [reflexivity|]. rewrite IH. lia. Qed.
Lemma utf8_len_pos' : forall c, 1 <= utf8_len c.
Proof. intros c. unfold utf8_len. destruct (c <? 128); [lia|]. destruct (c <? 2048); [lia|]. destruct (c <? 65536); lia. Qed.

(* ---------- slicing at boundaries ---------- *)
Lemma drop_bytes_0 : forall s, drop_bytes s 0 = Some s.
Proof. destruct s; reflexivity. Qed.
Lemma take_bytes_0 : forall s, take_bytes s 0 = Some [].
Proof. destruct s; reflexivity. Qed.
Lemma drop_bytes_app : forall a b, drop_bytes (a ++ b) (byte_len a) = Some b.
Proof.
  induction a as [|c a IH]; intros b; [apply drop_bytes_0|].
  cbn [app byte_len drop_bytes]. pose proof (utf8_len_pos' c) as Hc.
  replace (utf8_len c + byte_len a =? 0) with false by (symmetry; apply N.eqb_neq; lia).
  replace (utf8_len c <=? utf8_len c + byte_len a) with true by (symmetry; apply N.leb_le; lia).
  replace (utf8_len c + byte_len a - utf8_len c) with (byte_len a) by lia. apply IH.
Qed.
Lemma take_bytes_app : forall a b, take_bytes (a ++ b) (byte_len a) = Some a.
Proof.
  induction a as [|c a IH]; intros b; [apply take_bytes_0|].
  cbn [app byte_len take_bytes]. pose proof (utf8_len_pos' c) as Hc.
  replace (utf8_len c + byte_len a =? 0) with false by (symmetry; apply N.eqb_neq; lia).
  replace (utf8_len c <=? utf8_len c + byte_len a) with true by (symmetry; apply N.leb_le; lia).
  replace (utf8_len c + byte_len a - utf8_len c) with (byte_len a) by lia. rewrite IH. reflexivity.
Qed.
Lemma slice_from_app : forall p q k, k = byte_len p -> slice_from (p ++ q) k = Ok q.
Proof. intros p q k ->. unfold slice_from. rewrite drop_bytes_app. reflexivity. Qed.
Lemma slice_mid : forall p x q a b, a = byte_len p -> b = byte_len p + byte_len x -> slice (p ++ x ++ q) a b = Ok x.
Proof.
  intros p x q a b -> ->. unfold slice.
  replace (byte_len p + byte_len x <? byte_len p) with false by (symmetry; apply N.ltb_ge; lia).
  rewrite drop_bytes_app. replace (byte_len p + byte_len x - byte_len p) with (byte_len x) by lia.
  rewrite take_bytes_app. reflexivity.
Qed.
Lemma slice_end : forall p x a b, a = byte_len p -> b = byte_len p + byte_len x -> slice (p ++ x) a b = Ok x.
Proof. intros p x a b Ha Hb. rewrite <- (app_nil_r x) at 1. apply slice_mid; assumption. Qed.

Lemma slice_is : forall s a b p x q, s = p ++ x ++ q -> a = byte_len p -> b = byte_len p + byte_len x -> slice s a b = Ok x.
Proof. intros s a b p x q -> Ha Hb. apply slice_mid; assumption. Qed.
Lemma slice_from_is : forall s a p q, s = p ++ q -> a = byte_len p -> slice_from s a = Ok q.
Proof. intros s a p q -> Ha. apply slice_from_app. assumption. Qed.

(* ---------- searching ---------- *)
Lemma find_idx_split : forall ch s off,
  match split_once ch s with
  | Some (a, b) => find_idx ch s off = Some (off + byte_len a) /\ s = a ++ ch :: b
  | None => find_idx ch s off = None
  end.
Proof.
  induction s as [|c s IH]; intros off; cbn [split_once find_idx]; [reflexivity|].
  destruct (c =? ch) eqn:E.
  - apply N.eqb_eq in E. subst. cbn [byte_len app]. split; [f_equal; lia | reflexivity].
  - specialize (IH (off + utf8_len c)). destruct (split_once ch s) as [[a b]|].
    + destruct IH as [IH1 IH2]. cbn [byte_len app]. split; [rewrite IH1; f_equal; lia | rewrite IH2; reflexivity].
    + exact IH.
Qed.
Lemma comma_idx_span : forall s q off,
  match span_val q s with
  | (v, Some r) => comma_idx q s off = Some (off + byte_len v) /\ s = v ++ 44 :: r
  | (v, None) => comma_idx q s off = None /\ s = v
  end.
Proof.
  induction s as [|c s IH]; intros q off; cbn [span_val comma_idx]; [split; reflexivity|].
  destruct (c =? 34) eqn:E34.
  - specialize (IH (negb q) (off + utf8_len c)). destruct (span_val (negb q) s) as [v [r|]]; destruct IH as [I1 I2]; cbn [byte_len app];
      (split; [rewrite I1; try reflexivity; f_equal; lia | rewrite I2 at 1; reflexivity]).
  - destruct ((c =? 44) && negb q) eqn:E44.
    + apply andb_true_iff in E44. destruct E44 as [E44 _]. apply N.eqb_eq in E44. subst. cbn [byte_len app].
      split; [f_equal; lia | reflexivity].
    + specialize (IH q (off + utf8_len c)). destruct (span_val q s) as [v [r|]]; destruct IH as [I1 I2]; cbn [byte_len app];
        (split; [rewrite I1; try reflexivity; f_equal; lia | rewrite I2 at 1; reflexivity]).
Qed.

(* ---------- one step of the iterator ---------- *)
Definition next_struct (tail : str) : option ((str * str) * str) :=
  if byte_len tail <? 2 then None
  else match split_once 61 tail with
       | None => None
       | Some (k, rest) =>
           let '(v, rest') := span_val false rest in
           Some ((trim k, trim v), match rest' with Some r => r | None => [] end)
       end.
Lemma pairs_fuel_next : forall f tail, pairs_fuel (S f) tail =
  match next_struct tail with Some (kv, rest) => kv :: (match rest with [] => match span_val false (match split_once 61 tail with Some (_, r) => r | None => [] end) with (_, Some r) => pairs_fuel f r | _ => [] end | _ => pairs_fuel f rest end) | None => [] end.
Proof.
  intros f tail. cbn [pairs_fuel]. unfold next_struct. destruct (byte_len tail <? 2); [reflexivity|].
  destruct (split_once 61 tail) as [[k rest]|]; [|reflexivity].
  destruct (span_val false rest) as [v [r|]]; [|reflexivity].
  destruct r; reflexivity.
Qed.

Ltac blia := repeat (rewrite byte_len_app'); cbn [byte_len]; repeat (rewrite byte_len_app'); cbn [byte_len];
  try change (utf8_len 61) with 1; try change (utf8_len 44) with 1; try change (utf8_len 34) with 1; lia.
Theorem next_idx_refines : forall p tail,
  next_idx (p ++ tail) (byte_len p) =
  Ok (match next_struct tail with
      | Some (kv, rest) => Some (kv, byte_len (p ++ tail) - byte_len rest)
      | None => None
      end).
Proof.
  intros p tail. unfold next_idx, next_struct. cbv zeta. rewrite byte_len_app'.
  destruct (byte_len tail <? 2) eqn:E2.
  - apply N.ltb_lt in E2. replace (byte_len p + byte_len tail <=? byte_len p + 1) with true by (symmetry; apply N.leb_le; lia). reflexivity.
  - apply N.ltb_ge in E2. replace (byte_len p + byte_len tail <=? byte_len p + 1) with false by (symmetry; apply N.leb_gt; lia).
    rewrite (slice_from_app p tail _ eq_refl). cbn [bind].
    pose proof (find_idx_split 61 tail 0) as HF. destruct (split_once 61 tail) as [[k rest]|]; [|rewrite HF; reflexivity].
    destruct HF as [HF Htail]. rewrite HF. cbv beta iota. rewrite !N.add_0_l. subst tail.
    assert (L61 : byte_len (p ++ k ++ [61]) = byte_len k + byte_len p + 1).
    { rewrite !byte_len_app'. cbn [byte_len]. change (utf8_len 61) with 1. lia. }
    (* key *)
    rewrite (slice_is _ _ _ p k (61 :: rest)) by (reflexivity || blia). cbn [bind].
    (* the rest behind '=' *)
    rewrite (slice_from_is _ _ (p ++ k ++ [61]) rest) by (first [ rewrite <- !app_assoc; reflexivity | blia ]). cbn [bind].
    pose proof (comma_idx_span rest false 0) as HC. destruct (span_val false rest) as [v [r|]]; destruct HC as [HC Hr]; rewrite HC; cbv beta iota; rewrite ?N.add_0_l.
    + (* a comma ends the value *)
      subst rest.
      unfold usub. match goal with |- context [if ?c then Panic else _] => replace c with false by (symmetry; apply N.ltb_ge; blia) end.
      cbn [bind]. cbv beta iota.
      match goal with |- context [if ?c then Panic else _] => replace c with false by (symmetry; apply N.ltb_ge; blia) end.
      cbn [bind].
      rewrite (slice_is _ _ _ (p ++ k ++ [61]) v (44 :: r)) by (first [ rewrite <- !app_assoc; reflexivity | blia ]).
      cbn [bind]. do 3 f_equal. blia.
    + (* the value runs to the end of the string *)
      subst rest. cbn [bind]. cbv beta iota.
      assert (Blen : byte_len (k ++ 61 :: v) = byte_len k + 1 + byte_len v).
      { rewrite byte_len_app'. cbn [byte_len]. change (utf8_len 61) with 1. lia. }
      unfold usub. match goal with |- context [if ?c then Panic else _] => replace c with false by (symmetry; apply N.ltb_ge; blia) end.
      cbn [bind].
      rewrite (slice_is _ _ _ (p ++ k ++ [61]) v []) by (first [ rewrite <- !app_assoc, ?app_nil_r; reflexivity | blia ]).
      cbn [bind]. do 3 f_equal. blia.
Qed.

(* ---------- the whole iteration ---------- *)
Lemma next_struct_suffix : forall tail kv rest, next_struct tail = Some (kv, rest) -> exists mid, tail = mid ++ rest.
Proof.
  intros tail kv rest H. unfold next_struct in H. destruct (byte_len tail <? 2); [discriminate|].
  pose proof (find_idx_split 61 tail 0) as HF. destruct (split_once 61 tail) as [[k r0]|]; [|discriminate].
  destruct HF as [_ Ht]. pose proof (comma_idx_span r0 false 0) as HC.
  destruct (span_val false r0) as [v [r|]]; destruct HC as [_ Hr]; inversion H; subst.
  - exists (k ++ 61 :: v ++ [44]). rewrite <- !app_assoc. cbn [app]. rewrite <- app_assoc. reflexivity.
  - exists (k ++ 61 :: v). rewrite app_nil_r. reflexivity.
Qed.
Lemma pairs_fuel_struct : forall f tail, pairs_fuel (S f) tail =
  match next_struct tail with
  | Some (kv, rest) => kv :: (if byte_len rest <? 2 then [] else pairs_fuel f rest)
  | None => []
  end.
Proof.
  intros f tail. cbn [pairs_fuel]. unfold next_struct. destruct (byte_len tail <? 2); [reflexivity|].
  destruct (split_once 61 tail) as [[k rest]|]; [|reflexivity].
  destruct (span_val false rest) as [v [r|]].
  - f_equal. destruct (byte_len r <? 2) eqn:E; [|reflexivity]. destruct f; [reflexivity|]. cbn [pairs_fuel]. rewrite E. reflexivity.
  - reflexivity.
Qed.
Lemma pairs_fuel_short : forall f s, byte_len s <? 2 = true -> pairs_fuel f s = [].
Proof. intros [|f] s H; [reflexivity|]. cbn [pairs_fuel]. rewrite H. reflexivity. Qed.

Theorem pairs_idx_fuel_refines : forall f p tail,
  pairs_idx_fuel f (p ++ tail) (byte_len p) = Ok (pairs_fuel f tail).
Proof.
  induction f as [|f IH]; intros p tail; [reflexivity|].
  cbn [pairs_idx_fuel]. rewrite next_idx_refines. cbn [bind]. rewrite pairs_fuel_struct.
  destruct (next_struct tail) as [[kv rest]|] eqn:E; [|reflexivity].
  destruct (next_struct_suffix _ _ _ E) as [mid Hmid]. subst tail.
  replace (byte_len (p ++ mid ++ rest) - byte_len rest) with (byte_len (p ++ mid)) by (rewrite !byte_len_app'; lia).
  replace (p ++ mid ++ rest) with ((p ++ mid) ++ rest) by (rewrite app_assoc; reflexivity).
  rewrite IH. cbn [bind]. do 2 f_equal.
  destruct (byte_len rest <? 2) eqn:Es; [rewrite pairs_fuel_short by exact Es|]; reflexivity.
Qed.

(* the index-level tokenizer never panics and returns exactly the pairs of the structural model *)
Theorem pairs_idx_refines : forall s, pairs_idx s = Ok (attr_pairs s).
Proof. intros s. unfold pairs_idx, attr_pairs. apply (pairs_idx_fuel_refines _ [] s). Qed.

(* ---------- unquote ---------- *)
Lemma rev_cons_last : forall (r : str) x ri, rev r = x :: ri -> r = rev ri ++ [x].
Proof. intros r x ri H. rewrite <- (rev_involutive r), H. reflexivity. Qed.
Lemma match_34 : forall (T : Type) (x : N) (A B : T), (x =? 34) = false ->
  match x with 34 => A | _ => B end = B.
Proof.
  intros T x A B H. destruct x as [|q]; [reflexivity|].
  repeat (destruct q as [q|q|]; try reflexivity). discriminate H.
Qed.
Theorem unquote_idx_refines : forall s, unquote_idx s = Ok (unquote s).
Proof.
  intros s. unfold unquote_idx, unquote.
  destruct s as [|c r]; [reflexivity|].
  cbn [starts_with]. rewrite (N.eqb_sym 34 c). destruct (c =? 34) eqn:E34.
  - apply N.eqb_eq in E34. subst c. cbn [andb].
    destruct (rev r) as [|x ri] eqn:Er.
    + (* a lone quote *)
      assert (r = []) by (rewrite <- (rev_involutive r), Er; reflexivity). subst r.
      cbn [byte_len utf8_len]. reflexivity.
    + pose proof (rev_cons_last _ _ _ Er) as Hr. unfold ends_with_char. cbn [rev]. rewrite Er. cbn [app].
      match goal with |- context [2 <=? ?n] => replace (2 <=? n) with true
        by (symmetry; apply N.leb_le; subst r; pose proof (utf8_len_pos' x); blia) end.
      cbn [andb]. destruct (x =? 34) eqn:Ex.
      * apply N.eqb_eq in Ex. subst x. subst r. unfold usub.
        match goal with |- context [if ?c then Panic else _] => replace c with false by (symmetry; apply N.ltb_ge; blia) end.
        cbn [bind].
        rewrite (slice_is _ _ _ [34] (rev ri) [34]) by (first [ reflexivity | blia ]).
        cbn [bind]. destruct (any_char is_bad_quoted (rev ri)); reflexivity.
      * rewrite (match_34 _ x _ _ Ex). reflexivity.
  - rewrite (match_34 _ c _ _ E34). cbn [andb]. rewrite andb_false_r. reflexivity.
Qed.

(* ---------- tag ---------- *)
Lemma starts_with_split : forall p t, starts_with p t = true -> exists r, t = p ++ r /\ strip_prefix p t = Some r.
Proof.
  induction p as [|x p IH]; intros t H; [exists t; split; reflexivity|].
  destruct t as [|y t]; [discriminate|]. cbn [starts_with] in H. apply andb_true_iff in H. destruct H as [Hxy H].
  apply N.eqb_eq in Hxy. subst y. destruct (IH t H) as [r [Ht Hs]]. exists r. cbn [strip_prefix app].
  rewrite N.eqb_refl. split; [rewrite Ht; reflexivity | exact Hs].
Qed.
Lemma starts_with_false_strip : forall p t, starts_with p t = false -> strip_prefix p t = None.
Proof.
  induction p as [|x p IH]; intros t H; [discriminate|].
  destruct t as [|y t]; [reflexivity|]. cbn [starts_with] in H. cbn [strip_prefix].
  destruct (x =? y); [apply IH; exact H | reflexivity].
Qed.
Theorem tag_idx_refines : forall input prefix, tag_idx input prefix = tag input prefix.
Proof.
  intros input prefix. unfold tag_idx, tag.
  destruct (starts_with prefix (trim input)) eqn:E.
  - destruct (starts_with_split _ _ E) as [r [Ht Hs]]. rewrite Hs, Ht. cbn [of_opt]. apply slice_from_app. reflexivity.
  - rewrite (starts_with_false_strip _ _ E). reflexivity.
Qed.
