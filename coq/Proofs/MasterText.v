(* MasterText.v — C04 at text level: for every well-formed, valid master playlist value,
   parse_master (print_master p) = Ok p. *)
From hls Require Import Base Float Lex Kinds Types Tags Line Keys Media Master.
From hls.Generated Require Import Tables.
From hls.Proofs Require Import EqFacts C16 C12 Lexical Values TextLines AttrText TagText TagTextMedia
  TagTextVariant C10 C04.
From Coq Require Import Lia ZifyN ZifyNat.
Open Scope N_scope.

(* ---------- one written line, read as one item ---------- *)
Lemma starts_with_app_true : forall p q rest, starts_with p q = true -> starts_with p (q ++ rest) = true.
Proof.
  induction p as [|x p IH]; intros q rest H; [reflexivity|].
  destruct q as [|y q]; [discriminate|]. simpl in *. apply andb_true_iff in H. destruct H as [H1 H2].
  rewrite H1. simpl. apply IH, H2.
Qed.
Lemma item_tag : forall pfx K rest tail t,
  In (false, pfx, K) dispatch_table -> starts_with s_hashEXT pfx = true ->
  starts_with pairing_prefix pfx = false -> starts_with pfx pairing_prefix = false ->
  parse_kind K (pfx ++ rest) = Ok t ->
  items ((pfx ++ rest) :: tail) = Ok (LTag t) :: items tail.
Proof.
  intros pfx K rest tail t Hin Hh Hp1 Hp2 Hk. cbn [items].
  rewrite (starts_with_app_false pairing_prefix pfx rest Hp1 Hp2).
  rewrite (starts_with_app_true _ _ rest Hh). rewrite (dispatch_by_prefix pfx K rest Hin), Hk. reflexivity.
Qed.
Ltac in_table := cbn [In dispatch_table]; tauto.

Lemma item_xmedia : forall m tail, wf_xmedia m = true ->
  items (print_xmedia m :: tail) = Ok (LTag (TMedia m)) :: items tail.
Proof.
  intros m tail H. destruct (xmedia_text m H) as [Hp _]. rewrite print_xmedia_kvs in *.
  apply (item_tag pfx_ExtXMedia K_ExtXMedia); [in_table | reflexivity | reflexivity | reflexivity |].
  cbn [parse_kind]. rewrite Hp. reflexivity.
Qed.
Lemma item_sdata : forall d tail, wf_sdata d = true ->
  items (print_session_data d :: tail) = Ok (LTag (TSessionData d)) :: items tail.
Proof.
  intros d tail H. destruct (session_data_text d H) as [Hp _]. rewrite print_sdata_kvs in *.
  apply (item_tag pfx_ExtXSessionData K_ExtXSessionData); [in_table | reflexivity | reflexivity | reflexivity |].
  cbn [parse_kind]. rewrite Hp. reflexivity.
Qed.
Lemma item_skey : forall k tail, wf_key k = true ->
  items (print_session_key k :: tail) = Ok (LTag (TSessionKey k)) :: items tail.
Proof.
  intros k tail H. destruct (session_key_text k H) as [Hp _]. unfold print_session_key in *.
  apply (item_tag pfx_ExtXSessionKey K_ExtXSessionKey); [in_table | reflexivity | reflexivity | reflexivity |].
  cbn [parse_kind]. rewrite Hp. reflexivity.
Qed.
Lemma item_start : forall s tail, wf_start s = true ->
  items (print_start s :: tail) = Ok (LTag (TStart s)) :: items tail.
Proof.
  intros s tail H. destruct (start_text s H) as [Hp _]. rewrite print_start_kvs in *.
  apply (item_tag pfx_ExtXStart K_ExtXStart); [in_table | reflexivity | reflexivity | reflexivity |].
  cbn [parse_kind]. rewrite Hp. reflexivity.
Qed.
Lemma item_indep : forall tail, items (pfx_ExtXIndependentSegments :: tail) = Ok (LTag TIndep) :: items tail.
Proof. intros. reflexivity. Qed.
Lemma item_iframe : forall u sd tail, wf_variant (VIFrame u sd) = true ->
  items (print_variant (VIFrame u sd) :: tail) = Ok (LTag (TVariant (VIFrame u sd))) :: items tail.
Proof.
  intros u sd tail H. destruct (iframe_text u sd H) as [Hp [_ Ht]]. rewrite print_iframe in *.
  apply (item_tag pfx_VariantStream_EXTXIFRAME K_VariantStream); [in_table | reflexivity | reflexivity | reflexivity |].
  cbn [parse_kind]. rewrite Ht. cbn [is_ok]. rewrite Hp. reflexivity.
Qed.
Lemma item_streaminf : forall u fr au su cc sd tail, wf_variant (VStreamInf u fr au su cc sd) = true ->
  items (streaminf_line fr au su cc sd :: u :: tail) = Ok (LTag (TVariant (VStreamInf u fr au su cc sd))) :: items tail.
Proof.
  intros u fr au su cc sd tail H. destruct (streaminf_text u fr au su cc sd H) as [Hp _].
  cbn [items]. unfold streaminf_line at 1.
  assert (Hs : starts_with pairing_prefix (pfx_VariantStream_EXTXSTREAMINF ++ render_kvs (streaminf_kvs fr au su cc sd)) = true)
    by (apply starts_with_app_true; reflexivity).
  rewrite Hs. fold (streaminf_line fr au su cc sd). rewrite Hp. reflexivity.
Qed.

Definition wf_unknown (u : str) : bool :=
  good_line u && starts_with s_hashEXT u && negb (starts_with pairing_prefix u) && kind_eqb (classify u) K_Unknown.
Lemma kind_eqb_eq : forall a b, kind_eqb a b = true -> a = b.
Proof. intros a b H. destruct a, b; try reflexivity; discriminate H. Qed.
Lemma item_unknown : forall u tail, wf_unknown u = true ->
  items (u :: tail) = Ok (LTag (TUnknown u)) :: items tail.
Proof.
  intros u tail H. unfold wf_unknown in H. apply andb_true_iff in H. destruct H as [H Hk].
  apply andb_true_iff in H. destruct H as [H Hp]. apply andb_true_iff in H. destruct H as [_ Hh].
  apply negb_true_iff in Hp. apply kind_eqb_eq in Hk. cbn [items]. rewrite Hp, Hh, Hk. reflexivity.
Qed.

(* ---------- the lines of a variant ---------- *)
Lemma variant_lines_streaminf : forall u fr au su cc sd, wf_variant (VStreamInf u fr au su cc sd) = true ->
  variant_lines (VStreamInf u fr au su cc sd) = [streaminf_line fr au su cc sd; u].
Proof.
  intros u fr au su cc sd H. destruct (streaminf_text u fr au su cc sd H) as [_ Hg].
  unfold variant_lines. rewrite print_streaminf. cbn [app]. rewrite split_on_append.
  rewrite (split_on_no_sep _ (good_line_no_lf _ Hg)).
  cbn [wf_variant] in H. do 5 (apply andb_true_iff in H; destruct H as [H _]).
  rewrite (split_on_no_sep _ (good_line_no_lf _ H)). reflexivity.
Qed.
Lemma variant_lines_iframe : forall u sd, wf_variant (VIFrame u sd) = true ->
  variant_lines (VIFrame u sd) = [print_variant (VIFrame u sd)].
Proof.
  intros u sd H. destruct (iframe_text u sd H) as [_ [Hg _]]. unfold variant_lines.
  apply split_on_no_sep, good_line_no_lf, Hg.
Qed.
Lemma items_variants : forall vs tail, forallb wf_variant vs = true ->
  items (flat_map variant_lines vs ++ tail) = map (fun v => Ok (LTag (TVariant v))) vs ++ items tail.
Proof.
  induction vs as [|v vs IH]; intros tail H; [reflexivity|].
  simpl in H. apply andb_true_iff in H. destruct H as [Hv Hvs]. cbn [flat_map map]. rewrite <- app_assoc.
  destruct v as [u sd | u fr au su cc sd].
  - rewrite (variant_lines_iframe u sd Hv). cbn [app]. rewrite (item_iframe u sd _ Hv), (IH tail Hvs). reflexivity.
  - rewrite (variant_lines_streaminf u fr au su cc sd Hv). cbn [app].
    rewrite (item_streaminf u fr au su cc sd _ Hv), (IH tail Hvs). reflexivity.
Qed.
Lemma items_family : forall A (pr : A -> str) (mk : A -> tagv) (wf : A -> bool),
  (forall x tail, wf x = true -> items (pr x :: tail) = Ok (LTag (mk x)) :: items tail) ->
  forall l tail, forallb wf l = true -> items (map pr l ++ tail) = map (fun x => Ok (LTag (mk x))) l ++ items tail.
Proof.
  intros A pr mk wf Hone. induction l as [|x l IH]; intros tail H; [reflexivity|].
  simpl in H. apply andb_true_iff in H. destruct H as [Hx Hl]. cbn [map app].
  rewrite (Hone x _ Hx), (IH tail Hl). reflexivity.
Qed.

(* ---------- the whole playlist ---------- *)
Definition wf_master (p : MasterPlaylist) : bool :=
  forallb wf_xmedia (ma_media p) && forallb wf_variant (ma_variants p) && forallb wf_sdata (ma_sdata p)
  && forallb wf_key (ma_skeys p) && match ma_start p with Some s => wf_start s | None => true end
  && forallb wf_unknown (ma_unknown p).

Lemma master_body_items : forall p, wf_master p = true ->
  items (master_body_lines p) = map Ok (master_items p).
Proof.
  intros p H. unfold wf_master in H.
  repeat (apply andb_true_iff in H; let H2 := fresh "W" in destruct H as [H H2]).
  unfold master_body_lines, master_items. rewrite !map_app, !map_map.
  rewrite (items_family _ print_xmedia TMedia wf_xmedia item_xmedia _ _ H).
  rewrite (items_variants _ _ W3).
  rewrite (items_family _ print_session_data TSessionData wf_sdata item_sdata _ _ W2).
  rewrite (items_family _ print_session_key TSessionKey wf_key item_skey _ _ W1).
  f_equal. f_equal. f_equal. f_equal.
  assert (Hi : forall tail, items ((if ma_indep p then [pfx_ExtXIndependentSegments] else []) ++ tail)
               = map Ok (if ma_indep p then [LTag TIndep] else []) ++ items tail).
  { intros. destruct (ma_indep p); [apply item_indep | reflexivity]. }
  rewrite Hi. f_equal.
  assert (Hs : forall tail, items (olist (ma_start p) print_start ++ tail)
               = map Ok (match ma_start p with Some s => [LTag (TStart s)] | None => [] end) ++ items tail).
  { intros. destruct (ma_start p) as [s|]; [apply item_start, W0 | reflexivity]. }
  rewrite Hs. f_equal.
  pose proof (items_family _ (fun u : str => u) TUnknown wf_unknown item_unknown (ma_unknown p) [] W) as E.
  rewrite map_id, !app_nil_r in E. exact E.
Qed.

(* every line the master writer emits is a good line *)
Lemma forallb_map : forall A B (f : A -> B) (p : B -> bool) l, forallb p (map f l) = forallb (fun x => p (f x)) l.
Proof. induction l as [|x l IH]; simpl; [reflexivity | rewrite IH; reflexivity]. Qed.
Lemma forallb_impl : forall A (p q : A -> bool) l, (forall x, p x = true -> q x = true) ->
  forallb p l = true -> forallb q l = true.
Proof. intros A p q l Hi H. rewrite forallb_forall in *. intros x Hx. apply Hi, H, Hx. Qed.
Lemma forallb_flat_map : forall A B (f : A -> list B) (p : B -> bool) l,
  forallb p (flat_map f l) = forallb (fun x => forallb p (f x)) l.
Proof. induction l as [|x l IH]; simpl; [reflexivity | rewrite forallb_app, IH; reflexivity]. Qed.

Lemma variant_lines_good : forall v, wf_variant v = true -> forallb good_line (variant_lines v) = true.
Proof.
  intros [u sd | u fr au su cc sd] H.
  - rewrite (variant_lines_iframe u sd H). destruct (iframe_text u sd H) as [_ [Hg _]]. cbn [forallb]. rewrite Hg. reflexivity.
  - rewrite (variant_lines_streaminf u fr au su cc sd H). destruct (streaminf_text u fr au su cc sd H) as [_ Hg].
    cbn [wf_variant] in H. do 5 (apply andb_true_iff in H; destruct H as [H _]). cbn [forallb]. rewrite Hg, H. reflexivity.
Qed.
Lemma master_body_good : forall p, wf_master p = true -> forallb good_line (master_body_lines p) = true.
Proof.
  intros p H. unfold wf_master in H.
  repeat (apply andb_true_iff in H; let H2 := fresh "W" in destruct H as [H H2]).
  unfold master_body_lines. rewrite !forallb_app, !forallb_map, forallb_flat_map.
  repeat (apply andb_true_iff; split).
  - eapply forallb_impl; [|exact H]. intros m Hm. apply (xmedia_text m Hm).
  - eapply forallb_impl; [|exact W3]. apply variant_lines_good.
  - eapply forallb_impl; [|exact W2]. intros d Hd. apply (session_data_text d Hd).
  - eapply forallb_impl; [|exact W1]. intros k Hk. apply (session_key_text k Hk).
  - destruct (ma_indep p); reflexivity.
  - destruct (ma_start p) as [s|]; [|reflexivity]. cbn [olist forallb]. rewrite (proj2 (start_text s W0)). reflexivity.
  - eapply forallb_impl; [|exact W]. intros u Hu. unfold wf_unknown in Hu.
    do 3 (apply andb_true_iff in Hu; destruct Hu as [Hu _]). exact Hu.
Qed.

(* the written text is its lines, each followed by LF *)
Lemma flat_map_map : forall A B C (f : A -> B) (g : B -> list C) l, flat_map g (map f l) = flat_map (fun x => g (f x)) l.
Proof. induction l as [|x l IH]; simpl; [reflexivity | rewrite IH; reflexivity]. Qed.
Lemma flat_map_flat_map : forall A B C (f : A -> list B) (g : B -> list C) l,
  flat_map g (flat_map f l) = flat_map (fun x => flat_map g (f x)) l.
Proof. induction l as [|x l IH]; simpl; [reflexivity | rewrite flat_map_app, IH; reflexivity]. Qed.
Lemma flat_map_ext_in : forall A B (f g : A -> list B) l, (forall x, In x l -> f x = g x) -> flat_map f l = flat_map g l.
Proof.
  induction l as [|x l IH]; intros H; [reflexivity|]. simpl. rewrite (H x (or_introl eq_refl)).
  rewrite IH; [reflexivity|]. intros y Hy. apply H. right. exact Hy.
Qed.
Lemma print_master_lines : forall p, forallb wf_variant (ma_variants p) = true ->
  print_master p = flat_map nl (master_lines p).
Proof.
  intros p Hv. unfold print_master, master_lines, master_body_lines.
  rewrite !flat_map_app, !flat_map_map, flat_map_flat_map. cbn [flat_map]. rewrite app_nil_r.
  f_equal. f_equal. f_equal. f_equal; [|f_equal; f_equal; f_equal].
  - apply flat_map_ext_in. intros v Hin. rewrite forallb_forall in Hv. specialize (Hv v Hin).
    destruct v as [u sd | u fr au su cc sd].
    + rewrite (variant_lines_iframe u sd Hv). cbn [flat_map]. rewrite app_nil_r. reflexivity.
    + rewrite (variant_lines_streaminf u fr au su cc sd Hv). rewrite print_streaminf. unfold nl. cbn [flat_map].
      rewrite app_nil_r, <- !app_assoc. reflexivity.
  - destruct (ma_indep p); [cbn [flat_map]; rewrite app_nil_r; reflexivity | reflexivity].
  - destruct (ma_start p); [cbn [olist flat_map]; rewrite app_nil_r; reflexivity | reflexivity].
Qed.

(* the version line *)
Lemma maxl_le : forall l b, 1 <= b -> (forall x, In x l -> x <= b) -> maxl l <= b.
Proof. intros l b Hb H. destruct (maxl_in l) as [-> | Hin]; [exact Hb | apply H, Hin]. Qed.
Lemma master_rv_range : forall p, 1 <= master_rv p <= 7.
Proof.
  intros p. split; [apply maxl_ge1|]. unfold master_rv. apply maxl_le; [lia|].
  intros x Hx. cbn [In] in Hx.
  repeat (destruct Hx as [<- | Hx]); try (destruct Hx).
  - destruct (ma_indep p); vm_compute; discriminate.
  - destruct (ma_start p); vm_compute; discriminate.
  - apply maxl_le; [lia|]. intros y Hy. apply in_map_iff in Hy. destruct Hy as [m [<- _]].
    unfold xmedia_rv. destruct (xm_instream m) as [i|]; [destruct (i <? 4)|]; lia.
  - apply maxl_le; [lia|]. intros y Hy. apply in_map_iff in Hy. destruct Hy as [m [<- _]]. vm_compute; discriminate.
  - apply maxl_le; [lia|]. intros y Hy. apply in_map_iff in Hy. destruct Hy as [m [<- _]]. vm_compute; discriminate.
  - apply maxl_le; [lia|]. intros y Hy. apply in_map_iff in Hy. destruct Hy as [k [<- _]].
    unfold key_rv. destruct (is_some (k_format k) || is_some (k_versions k)); [lia|]. destruct (iv_is_some (k_iv k)); lia.
Qed.
Lemma version_line_items : forall rv tail s, 1 <= rv <= 7 ->
  forallb good_line (version_line rv) = true
  /\ mrun_lines s (items (version_line rv ++ tail)) = mrun_lines s (items tail).
Proof.
  intros rv tail s H. unfold version_line. destruct (rv =? 1); [split; reflexivity|].
  assert (E : rv = 1 \/ rv = 2 \/ rv = 3 \/ rv = 4 \/ rv = 5 \/ rv = 6 \/ rv = 7) by lia.
  split.
  - destruct E as [->|[->|[->|[->|[->|[->| ->]]]]]]; reflexivity.
  - cbn [app].
    match goal with |- mrun_lines _ (items ?L) = _ =>
      assert (Hit : items L = Ok (LTag (TVersion rv)) :: items tail)
        by (destruct E as [->|[->|[->|[->|[->|[->| ->]]]]]]; reflexivity) end.
    rewrite Hit. apply (version_tag_invariant_master [] (items tail) s rv).
Qed.

Theorem master_text_roundtrip : forall p, wf_master p = true -> validate_master p = true ->
  parse_master (print_master p) = Ok p.
Proof.
  intros p Hwf Hv.
  assert (Hvs : forallb wf_variant (ma_variants p) = true).
  { unfold wf_master in Hwf. do 4 (apply andb_true_iff in Hwf; destruct Hwf as [Hwf _]).
    apply andb_true_iff in Hwf. tauto. }
  rewrite (print_master_lines p Hvs). unfold master_lines. cbn [app].
  pose proof (master_rv_range p) as Hr.
  destruct (version_line_items (master_rv p) (master_body_lines p) ms_init Hr) as [Hg Hrun].
  assert (Hgood : forallb good_line (version_line (master_rv p) ++ master_body_lines p) = true).
  { rewrite forallb_app, Hg, (master_body_good p Hwf). reflexivity. }
  destruct (written_text_lines pfx_ExtM3u _ ltac:(reflexivity) Hgood) as [rest [Hstrip Hclean]].
  unfold parse_master, tag. rewrite Hstrip. cbn [of_opt bind]. unfold lines_of. rewrite Hclean.
  unfold parse_master_items. rewrite Hrun, (master_body_items p Hwf).
  exact (master_items_roundtrip p Hv).
Qed.
