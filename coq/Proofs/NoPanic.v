(* NoPanic.v — no text-accepting entry point of the model ever yields Panic.  The model writes
   every unwinding primitive of the Rust code as an explicit Panic outcome (checked arithmetic
   that the code does not guard, `set_start`, slicing); after the repairs the only remaining
   site is the `set_start` call of the byte-range completion, shown unreachable in Build.v. *)
From hls Require Import Base Float Lex Kinds Types Tags Line Keys Media Master.
From hls.Generated Require Import Tables.
From hls.Proofs Require Import EqFacts Build Parse MediaProps.
From Coq Require Import Lia.
Open Scope N_scope.

Lemma rmap_np : forall A B (f : A -> B) r, r <> Panic -> rmap f r <> Panic.
Proof. intros A B f [a| |] H; simpl; [discriminate | discriminate | congruence]. Qed.
Lemma of_opt_np : forall A (o : option A), of_opt o <> Panic.
Proof. intros A [a|]; discriminate. Qed.
Lemma fold_res_np : forall A B (f : A -> B -> res A) l a,
  (forall a b, f a b <> Panic) -> fold_res f l a <> Panic.
Proof.
  induction l as [|x l IH]; simpl; intros a Hf; [discriminate|].
  apply bind_np; [apply Hf | intros a' _; apply IH; assumption].
Qed.
Lemma enum_parse_np : forall tbl s, enum_parse tbl s <> Panic.
Proof. intros. unfold enum_parse. apply of_opt_np. Qed.

Ltac np_step :=
  first
    [ discriminate
    | apply of_opt_np
    | apply enum_parse_np
    | apply rmap_np
    | apply bind_np; [|intros ? _]
    | match goal with |- (if ?c then _ else _) <> Panic => destruct c end
    | match goal with |- (match ?x with _ => _ end) <> Panic => destruct x eqn:? end
    | match goal with |- (let '(_, _) := ?p in _) <> Panic => destruct p end ].
Ltac np := repeat np_step.

Lemma parse_u64_np : forall s, parse_u64 s <> Panic.  Proof. intros; unfold parse_u64; np. Qed.
Lemma parse_usize_np : forall s, parse_usize s <> Panic.  Proof. intros; unfold parse_usize; np. Qed.
Lemma parse_u8_np : forall s, parse_u8 s <> Panic.  Proof. intros; unfold parse_u8; np. Qed.
Lemma parse_f32_np : forall s, parse_f32 s <> Panic.  Proof. intros; unfold parse_f32; np. Qed.
Lemma parse_float_np : forall s, parse_float s <> Panic.
Proof. intros; unfold parse_float. apply bind_np; [apply parse_f32_np | intros; np]. Qed.
Lemma parse_ufloat_np : forall s, parse_ufloat s <> Panic.
Proof. intros; unfold parse_ufloat. apply bind_np; [apply parse_f32_np | intros; np]. Qed.
Lemma parse_duration_np : forall s, parse_duration s <> Panic.  Proof. intros; unfold parse_duration; np. Qed.
Lemma parse_byte_range_np : forall s, parse_byte_range s <> Panic.
Proof.
  intros; unfold parse_byte_range. destruct (splitn2 64 s) as [l st].
  apply bind_np; [apply parse_usize_np|]. intros len _.
  apply bind_np; [destruct st; [apply rmap_np; apply parse_usize_np | discriminate]|].
  intros; np.
Qed.
Lemma parse_channels_np : forall s, parse_channels s <> Panic.
Proof.
  intros; unfold parse_channels. destruct (split_once 47 s) as [[a b]|].
  - apply bind_np; [apply parse_u64_np | intros; np].
  - apply bind_np; [apply parse_u64_np | intros; np].
Qed.
Lemma parse_resolution_np : forall s, parse_resolution s <> Panic.
Proof.
  intros; unfold parse_resolution. destruct (splitn2 120 s) as [w h].
  apply bind_np; [apply parse_usize_np|]. intros ? _. destruct h; [|discriminate].
  apply bind_np; [apply parse_usize_np | intros; np].
Qed.
Lemma parse_iv_np : forall s, parse_iv s <> Panic.  Proof. intros; unfold parse_iv; np. Qed.
Lemma parse_kfv_items_np : forall l n, parse_kfv_items l n <> Panic.
Proof.
  induction l as [|x l IH]; simpl; intros n; [discriminate|].
  apply bind_np; [apply parse_u8_np|]. intros a _. destruct n; [discriminate|].
  apply bind_np; [apply IH | intros; discriminate].
Qed.
Lemma parse_kfv_np : forall s, parse_kfv s <> Panic.
Proof. intros; unfold parse_kfv; apply parse_kfv_items_np. Qed.
Lemma parse_protocol_version_np : forall s, parse_protocol_version s <> Panic.
Proof. intros; unfold parse_protocol_version; np. Qed.
Lemma parse_value_np : forall s, parse_value s <> Panic.
Proof. intros; unfold parse_value; np. Qed.
Lemma parse_yes_or_no_np : forall s, parse_yes_or_no s <> Panic.
Proof. intros; unfold parse_yes_or_no; np. Qed.
Lemma tag_np : forall a b, tag a b <> Panic.  Proof. intros; unfold tag; np. Qed.

Lemma key_attr_np : forall a kv, key_attr a kv <> Panic.
Proof.
  intros a [k v]. unfold key_attr.
  repeat match goal with |- (if ?c then _ else _) <> Panic => destruct c end;
    try discriminate;
    try (apply bind_np; [first [apply enum_parse_np | apply parse_iv_np | apply parse_kfv_np] | intros; discriminate]).
Qed.
Lemma parse_decryption_key_np : forall s, parse_decryption_key s <> Panic.
Proof.
  intros; unfold parse_decryption_key.
  apply bind_np; [apply fold_res_np; apply key_attr_np|]. intros; np.
Qed.
Lemma sd_attr_np : forall a kv, sd_attr a kv <> Panic.
Proof.
  intros a [k v]. unfold sd_attr.
  repeat match goal with |- (if ?c then _ else _) <> Panic => destruct c end;
    try discriminate;
    try (apply bind_np; [first [apply enum_parse_np | apply parse_u64_np | apply parse_resolution_np] | intros; discriminate]).
Qed.
Lemma parse_stream_data_np : forall s, parse_stream_data s <> Panic.
Proof.
  intros; unfold parse_stream_data.
  apply bind_np; [apply fold_res_np; apply sd_attr_np|]. intros; np.
Qed.

Lemma parse_extinf_np : forall l, parse_extinf l <> Panic.
Proof.
  intros; unfold parse_extinf. apply bind_np; [apply tag_np|]. intros rest _.
  destruct (splitn2 44 rest). apply bind_np; [apply parse_duration_np | intros; discriminate].
Qed.
Lemma parse_xbyterange_np : forall l, parse_xbyterange l <> Panic.
Proof. intros; unfold parse_xbyterange. apply bind_np; [apply tag_np | intros; apply parse_byte_range_np]. Qed.
Lemma parse_xkey_np : forall l, parse_xkey l <> Panic.
Proof.
  intros; unfold parse_xkey. apply bind_np; [apply tag_np|]. intros rest _.
  destruct (is_method_none (attr_pairs rest)); [discriminate|]. apply rmap_np. apply parse_decryption_key_np.
Qed.
Lemma map_attr_np : forall a kv, map_attr a kv <> Panic.
Proof.
  intros a [k v]. unfold map_attr.
  repeat match goal with |- (if ?c then _ else _) <> Panic => destruct c end; try discriminate.
  apply bind_np; [apply parse_byte_range_np | intros; discriminate].
Qed.
Lemma parse_xmap_np : forall l, parse_xmap l <> Panic.
Proof.
  intros; unfold parse_xmap. apply bind_np; [apply tag_np|]. intros rest _.
  apply bind_np; [apply fold_res_np; apply map_attr_np|]. intros; np.
Qed.
Lemma dr_attr_np : forall a kv, dr_attr a kv <> Panic.
Proof.
  intros a [k v]. unfold dr_attr.
  repeat match goal with |- (if ?c then _ else _) <> Panic => destruct c end;
    try discriminate;
    try (apply bind_np; [first [apply parse_duration_np | apply parse_value_np] | intros; discriminate]).
Qed.
Lemma parse_daterange_np : forall l, parse_daterange l <> Panic.
Proof.
  intros; unfold parse_daterange. apply bind_np; [apply tag_np|]. intros rest _.
  apply bind_np; [apply fold_res_np; apply dr_attr_np|]. intros a _.
  apply bind_np; [apply of_opt_np|]. intros; np.
Qed.
Lemma start_attr_np : forall a kv, start_attr a kv <> Panic.
Proof.
  intros a [k v]. unfold start_attr.
  repeat match goal with |- (if ?c then _ else _) <> Panic => destruct c end; try discriminate;
    (apply bind_np; [first [apply parse_float_np | apply parse_yes_or_no_np] | intros; discriminate]).
Qed.
Lemma parse_start_np : forall l, parse_start l <> Panic.
Proof.
  intros; unfold parse_start. apply bind_np; [apply tag_np|]. intros rest _.
  apply bind_np; [apply fold_res_np; apply start_attr_np|]. intros; np.
Qed.
Lemma xm_attr_np : forall a kv, xm_attr a kv <> Panic.
Proof.
  intros a [k v]. unfold xm_attr.
  repeat match goal with |- (if ?c then _ else _) <> Panic => destruct c end;
    try discriminate;
    try (apply bind_np; [first [apply enum_parse_np | apply parse_yes_or_no_np | apply parse_channels_np] | intros; discriminate]).
Qed.
Lemma parse_xmedia_np : forall l, parse_xmedia l <> Panic.
Proof.
  intros; unfold parse_xmedia. apply bind_np; [apply tag_np|]. intros rest _.
  apply bind_np; [apply fold_res_np; apply xm_attr_np|]. intros a _.
  unfold xm_build. destruct (xm_validate a); [|discriminate]. np.
Qed.
Lemma parse_iframe_np : forall l, parse_iframe l <> Panic.
Proof.
  intros; unfold parse_iframe. apply bind_np; [apply tag_np|]. intros rest _.
  apply bind_np; [apply of_opt_np|]. intros u _.
  apply bind_np; [apply parse_stream_data_np | intros; discriminate].
Qed.
Lemma si_attr_np : forall a kv, si_attr a kv <> Panic.
Proof.
  intros a [k v]. unfold si_attr.
  repeat match goal with |- (if ?c then _ else _) <> Panic => destruct c end; try discriminate.
  apply bind_np; [apply parse_ufloat_np | intros; discriminate].
Qed.
Lemma parse_streaminf_np : forall l u, parse_streaminf l u <> Panic.
Proof.
  intros; unfold parse_streaminf. apply bind_np; [apply tag_np|]. intros rest _.
  apply bind_np; [apply fold_res_np; apply si_attr_np|]. intros a _.
  apply bind_np; [apply parse_stream_data_np | intros; discriminate].
Qed.
Lemma xs_attr_np : forall a kv, xs_attr a kv <> Panic.
Proof.
  intros a [k v]. unfold xs_attr.
  repeat match goal with |- (if ?c then _ else _) <> Panic => destruct c end; discriminate.
Qed.
Lemma parse_session_data_np : forall l, parse_session_data l <> Panic.
Proof.
  intros; unfold parse_session_data. apply bind_np; [apply tag_np|]. intros rest _.
  apply bind_np; [apply fold_res_np; apply xs_attr_np|]. intros a _.
  apply bind_np; [apply of_opt_np|]. intros id _.
  apply bind_np; [destruct (xa_value a), (xa_uri a); discriminate | intros; discriminate].
Qed.
Lemma parse_session_key_np : forall l, parse_session_key l <> Panic.
Proof. intros; unfold parse_session_key. apply bind_np; [apply tag_np | intros; apply parse_decryption_key_np]. Qed.

Lemma parse_kind_np : forall k l, parse_kind k l <> Panic.
Proof.
  intros k l. destruct k; cbn [parse_kind]; try (apply rmap_np).
  - unfold parse_version. apply bind_np; [apply tag_np | intros; apply parse_protocol_version_np].
  - apply parse_extinf_np.
  - apply parse_xbyterange_np.
  - unfold parse_discontinuity. np.
  - apply parse_xkey_np.
  - apply parse_xmap_np.
  - unfold parse_pdt. apply tag_np.
  - apply parse_daterange_np.
  - unfold parse_target_duration. apply bind_np; [apply tag_np | intros; apply parse_u64_np].
  - unfold parse_media_sequence. apply bind_np; [apply tag_np | intros; apply parse_usize_np].
  - unfold parse_disc_sequence. apply bind_np; [apply tag_np | intros; apply parse_usize_np].
  - unfold parse_flag. apply bind_np; [apply tag_np | intros; discriminate].
  - unfold parse_playlist_type. apply bind_np; [apply tag_np | intros; np].
  - unfold parse_flag. apply bind_np; [apply tag_np | intros; discriminate].
  - apply parse_xmedia_np.
  - apply parse_session_data_np.
  - apply parse_session_key_np.
  - unfold parse_flag. apply bind_np; [apply tag_np | intros; discriminate].
  - apply parse_start_np.
  - destruct (is_ok (tag l pfx_VariantStream_EXTXIFRAME)); [|discriminate]. apply rmap_np. apply parse_iframe_np.
  - discriminate.
Qed.

Lemma items_np : forall ls r, In r (items ls) -> r <> Panic.
Proof.
  fix IH 1. intros ls r Hin. destruct ls as [|x rest]; cbn [items] in Hin; [destruct Hin|].
  destruct (starts_with pairing_prefix x).
  - destruct rest as [|u rest'].
    + destruct missing_uri_is_error; cbn [In] in Hin; [destruct Hin as [<-|H]; [discriminate|destruct H] | destruct Hin].
    + cbn [In] in Hin. destruct Hin as [<- | Hin]; [|exact (IH rest' r Hin)].
      apply rmap_np. apply parse_streaminf_np.
  - destruct (starts_with s_hashEXT x).
    + cbn [In] in Hin. destruct Hin as [<- | Hin]; [|exact (IH rest r Hin)].
      apply rmap_np. apply parse_kind_np.
    + destruct (starts_with [35] x); cbn [In] in Hin;
        (destruct Hin as [<- | Hin]; [discriminate | exact (IH rest r Hin)]).
Qed.

Theorem parse_media_no_panic : forall b0 input, parse_media_with b0 input <> Panic.
Proof.
  intros. unfold parse_media_with. apply bind_np; [apply tag_np|]. intros rest _.
  apply parse_items_no_panic.
  - intros r Hin. eapply items_np; exact Hin.
  - intros l Hin. eapply lines_of_wf; exact Hin.
Qed.

Lemma mstep_np : forall s l, mstep s l <> Panic.
Proof.
  intros s l. destruct l as [t| |u]; unfold mstep; try discriminate.
  destruct (in_kinds (kind_of t) master_rejects); [discriminate|]. destruct t; discriminate.
Qed.
Lemma mrun_lines_np : forall ls s, (forall r, In r ls -> r <> Panic) -> mrun_lines s ls <> Panic.
Proof.
  induction ls as [|r ls IH]; simpl; intros s Hnp; [discriminate|].
  apply bind_np; [apply Hnp; left; reflexivity|].
  intros l _. apply bind_np; [apply mstep_np|].
  intros s' _. apply IH. intros r' Hin. apply Hnp. right; assumption.
Qed.
Theorem parse_master_no_panic : forall input, parse_master input <> Panic.
Proof.
  intros. unfold parse_master. apply bind_np; [apply tag_np|]. intros rest _.
  unfold parse_master_items.
  apply bind_np; [apply mrun_lines_np; intros r Hin; eapply items_np; exact Hin|].
  intros s _. unfold finish_master. match goal with |- (if ?c then _ else _) <> Panic => destruct c end; discriminate.
Qed.

(* the attribute tokenizer terminates with fuel to spare: each step consumes at least the
   '=' it found, so `S (length s)` steps always suffice *)
Lemma split_once_shorter : forall c s a b, split_once c s = Some (a, b) -> (List.length b < List.length s)%nat.
Proof.
  induction s as [|x r IH]; simpl; intros a b H; [discriminate|].
  destruct (x =? c)%N.
  - inversion H; subst. auto.
  - destruct (split_once c r) as [[a' b']|] eqn:E; [|discriminate].
    inversion H; subst. specialize (IH _ _ eq_refl). auto with arith.
Qed.
Lemma span_val_shorter : forall s q v r, span_val q s = (v, Some r) -> (List.length r < List.length s)%nat.
Proof.
  induction s as [|c s IH]; simpl; intros q v r H; [discriminate|].
  destruct (c =? 34)%N.
  - destruct (span_val (negb q) s) as [v' rest] eqn:E. inversion H; subst.
    specialize (IH _ _ _ E). auto with arith.
  - destruct ((c =? 44)%N && negb q).
    + inversion H; subst. auto.
    + destruct (span_val q s) as [v' rest] eqn:E. inversion H; subst.
      specialize (IH _ _ _ E). auto with arith.
Qed.
Lemma pairs_fuel_enough : forall f1 f2 s, (List.length s < f1)%nat -> (List.length s < f2)%nat ->
  pairs_fuel f1 s = pairs_fuel f2 s.
Proof.
  induction f1 as [|f1 IH]; intros f2 s H1 H2; [inversion H1|].
  destruct f2 as [|f2]; [inversion H2|]. cbn [pairs_fuel].
  destruct (byte_len s <? 2); [reflexivity|].
  destruct (split_once 61 s) as [[k rest]|] eqn:E; [|reflexivity].
  destruct (span_val false rest) as [v rest'] eqn:Ev.
  destruct rest' as [r|]; [|reflexivity]. f_equal.
  pose proof (split_once_shorter _ _ _ _ E). pose proof (span_val_shorter _ _ _ _ Ev).
  apply IH; lia.
Qed.
