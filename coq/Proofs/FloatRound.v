(* FloatRound.v — the rounding function of the float model (Model/Float.v: rnd_pos) is round-to-nearest-even on the
   rational n/d and depends on the rational only. *)
From hls Require Import Base Float.
From Coq Require Import ZArith Lia Znumtheory.
Open Scope Z_scope.

(* ---------- comparing a positive rational n/d with 2^k ---------- *)
(* n/d >= 2^k *)
Definition ge2 (n d k : Z) : Prop := if 0 <=? k then d * 2 ^ k <= n else d <= n * 2 ^ (- k).
(* n/d < 2^k *)
Definition lt2 (n d k : Z) : Prop := if 0 <=? k then n < d * 2 ^ k else n * 2 ^ (- k) < d.

Lemma ge2_lt2 : forall n d k, 0 < d -> ~ (ge2 n d k /\ lt2 n d k).
Proof. intros n d k Hd [H1 H2]. unfold ge2, lt2 in *. destruct (0 <=? k); lia. Qed.
Lemma ge2_or_lt2 : forall n d k, ge2 n d k \/ lt2 n d k.
Proof. intros n d k. unfold ge2, lt2. destruct (0 <=? k); lia. Qed.

Lemma pow2_pos : forall k, 0 <= k -> 0 < 2 ^ k.
Proof. intros. apply Z.pow_pos_nonneg; lia. Qed.
Lemma pow2_split : forall a b, 0 <= a -> 0 <= b -> 2 ^ (a + b) = 2 ^ a * 2 ^ b.
Proof. intros. apply Z.pow_add_r; lia. Qed.

(* monotonicity in the exponent *)
Lemma ge2_mono : forall n d k k', 0 < n -> 0 < d -> k' <= k -> ge2 n d k -> ge2 n d k'.
Proof.
  intros n d k k' Hn Hd Hk H. unfold ge2 in *.
  destruct (0 <=? k) eqn:E; destruct (0 <=? k') eqn:E'; try (apply Z.leb_le in E); try (apply Z.leb_le in E');
    try (apply Z.leb_gt in E); try (apply Z.leb_gt in E').
  - replace k with (k' + (k - k')) in H by lia. rewrite pow2_split in H by lia.
    pose proof (pow2_pos (k - k') ltac:(lia)). pose proof (pow2_pos k' E'). nia.
  - pose proof (pow2_pos k E). pose proof (pow2_pos (- k') ltac:(lia)). nia.
  - lia.
  - replace (- k') with (- k + (k - k')) by lia. rewrite pow2_split by lia.
    pose proof (pow2_pos (k - k') ltac:(lia)). pose proof (pow2_pos (- k) ltac:(lia)). nia.
Qed.
Lemma lt2_mono : forall n d k k', 0 < n -> 0 < d -> k <= k' -> lt2 n d k -> lt2 n d k'.
Proof.
  intros n d k k' Hn Hd Hk H.
  destruct (ge2_or_lt2 n d k') as [G|L]; [|exact L].
  exfalso. apply (ge2_lt2 n d k Hd). split; [eapply ge2_mono; eauto | exact H].
Qed.

(* the binary logarithm brackets the rational *)
Lemma log2_bracket : forall n d, 0 < n -> 0 < d ->
  let l := Z.log2 n - Z.log2 d in ge2 n d (l - 1) /\ lt2 n d (l + 1).
Proof.
  intros n d Hn Hd l.
  destruct (Z.log2_spec n Hn) as [N1 N2]. destruct (Z.log2_spec d Hd) as [D1 D2].
  pose proof (Z.log2_nonneg n) as Ln. pose proof (Z.log2_nonneg d) as Ld.
  set (a := Z.log2 n) in *. set (b := Z.log2 d) in *.
  replace (Z.succ a) with (a + 1) in N2 by lia. replace (Z.succ b) with (b + 1) in D2 by lia.
  rewrite pow2_split in N2, D2 by lia. change (2 ^ 1) with 2 in *.
  pose proof (pow2_pos a Ln) as Pa. pose proof (pow2_pos b Ld) as Pb.
  unfold ge2, lt2, l. split.
  - destruct (0 <=? a - b - 1) eqn:E.
    + apply Z.leb_le in E. replace a with (b + 1 + (a - b - 1)) in N1 by lia. rewrite !pow2_split in N1 by lia.
      change (2 ^ 1) with 2 in N1. pose proof (pow2_pos (a - b - 1) E). nia.
    + apply Z.leb_gt in E. replace (- (a - b - 1)) with (b + 1 - a) by lia.
      replace (b + 1) with (a + (b + 1 - a)) in D2 by lia.
      assert (Hx : 2 ^ b * 2 = 2 ^ a * 2 ^ (b + 1 - a)).
      { rewrite <- pow2_split by lia. replace (a + (b + 1 - a)) with (b + 1) by lia. rewrite pow2_split by lia. reflexivity. }
      pose proof (pow2_pos (b + 1 - a) ltac:(lia)). nia.
  - destruct (0 <=? a - b + 1) eqn:E.
    + apply Z.leb_le in E.
      assert (Hx : 2 ^ a * 2 = 2 ^ b * 2 ^ (a - b + 1)).
      { rewrite <- pow2_split by lia. replace (b + (a - b + 1)) with (a + 1) by lia. rewrite pow2_split by lia. reflexivity. }
      pose proof (pow2_pos (a - b + 1) E). nia.
    + apply Z.leb_gt in E. replace (- (a - b + 1)) with (b - a - 1) by lia.
      assert (Hx : 2 ^ b = 2 ^ a * 2 * 2 ^ (b - a - 1)).
      { replace b with (a + 1 + (b - a - 1)) at 1 by lia. rewrite !pow2_split by lia. reflexivity. }
      pose proof (pow2_pos (b - a - 1) ltac:(lia)). nia.
Qed.

(* ---------- scaled: floor and remainder of (n/d) / 2^e ---------- *)
Definition sc_q (n d e : Z) : Z := fst (fst (scaled n d e)).
Definition sc_r (n d e : Z) : Z := snd (fst (scaled n d e)).
Definition sc_den (n d e : Z) : Z := snd (scaled n d e).
Lemma scaled_eta : forall n d e, scaled n d e = (sc_q n d e, sc_r n d e, sc_den n d e).
Proof. intros. unfold sc_q, sc_r, sc_den. destruct (scaled n d e) as [[q r] den]. reflexivity. Qed.

Lemma scaled_neg : forall n d e, e < 0 ->
  sc_q n d e = n * 2 ^ (- e) / d /\ sc_r n d e = (n * 2 ^ (- e)) mod d /\ sc_den n d e = d.
Proof. intros n d e H. unfold sc_q, sc_r, sc_den, scaled. apply Z.ltb_lt in H. rewrite H. cbn [fst snd]. auto. Qed.
Lemma scaled_nonneg : forall n d e, 0 <= e ->
  sc_q n d e = n / (d * 2 ^ e) /\ sc_r n d e = n mod (d * 2 ^ e) /\ sc_den n d e = d * 2 ^ e.
Proof. intros n d e H. unfold sc_q, sc_r, sc_den, scaled. apply Z.ltb_ge in H. rewrite H. cbn [fst snd]. auto. Qed.

Lemma div_ge_iff : forall a x d, 0 < d -> (a <= x / d <-> a * d <= x).
Proof.
  intros a x d Hd. pose proof (Z.div_mod x d ltac:(lia)) as E. pose proof (Z.mod_pos_bound x d Hd) as B. split; intros H; nia.
Qed.

(* q >= 2^j  <->  n/d >= 2^(j+e) *)
Lemma q_ge_pow : forall n d e j, 0 < n -> 0 < d -> 0 <= j -> (2 ^ j <= sc_q n d e <-> ge2 n d (j + e)).
Proof.
  intros n d e j Hn Hd Hj. pose proof (pow2_pos j Hj) as Pj. unfold ge2.
  destruct (Z_lt_le_dec e 0) as [He|He].
  - destruct (scaled_neg n d e He) as [Q _]. rewrite Q. rewrite div_ge_iff by lia.
    pose proof (pow2_pos (- e) ltac:(lia)) as Pe.
    destruct (0 <=? j + e) eqn:E.
    + apply Z.leb_le in E. assert (X : 2 ^ j = 2 ^ (j + e) * 2 ^ (- e)) by (rewrite <- pow2_split by lia; f_equal; lia).
      pose proof (pow2_pos (j + e) E). rewrite X. split; intros; nia.
    + apply Z.leb_gt in E. assert (X : 2 ^ (- e) = 2 ^ j * 2 ^ (- (j + e))) by (rewrite <- pow2_split by lia; f_equal; lia).
      pose proof (pow2_pos (- (j + e)) ltac:(lia)). rewrite X. split; intros; nia.
  - destruct (scaled_nonneg n d e He) as [Q _]. rewrite Q. pose proof (pow2_pos e He) as Pe.
    rewrite div_ge_iff by nia.
    replace (0 <=? j + e) with true by (symmetry; apply Z.leb_le; lia).
    rewrite pow2_split by lia. split; intros; nia.
Qed.
Lemma q_lt_pow : forall n d e j, 0 < n -> 0 < d -> 0 <= j -> (sc_q n d e < 2 ^ j <-> lt2 n d (j + e)).
Proof.
  intros n d e j Hn Hd Hj. pose proof (q_ge_pow n d e j Hn Hd Hj) as G.
  destruct (ge2_or_lt2 n d (j + e)) as [H|H].
  - split; intros X; [apply G in H; lia | exfalso; apply (ge2_lt2 n d (j + e) Hd); tauto].
  - split; intros X; [exact H|]. destruct (Z_lt_le_dec (sc_q n d e) (2 ^ j)); [assumption|].
    exfalso. apply (ge2_lt2 n d (j + e) Hd). split; [apply G; lia | exact H].
Qed.
Lemma sc_q_nonneg : forall n d e, 0 < n -> 0 < d -> 0 <= sc_q n d e.
Proof.
  intros n d e Hn Hd. destruct (Z_lt_le_dec e 0) as [He|He].
  - destruct (scaled_neg n d e He) as [Q _]. rewrite Q. apply Z.div_pos; [|lia]. pose proof (pow2_pos (- e) ltac:(lia)). nia.
  - destruct (scaled_nonneg n d e He) as [Q _]. rewrite Q. pose proof (pow2_pos e He). apply Z.div_pos; nia.
Qed.
Lemma sc_r_bound : forall n d e, 0 < n -> 0 < d -> 0 <= sc_r n d e < sc_den n d e.
Proof.
  intros n d e Hn Hd. destruct (Z_lt_le_dec e 0) as [He|He].
  - destruct (scaled_neg n d e He) as [_ [R D]]. rewrite R, D. apply Z.mod_pos_bound. lia.
  - destruct (scaled_nonneg n d e He) as [_ [R D]]. rewrite R, D. pose proof (pow2_pos e He). apply Z.mod_pos_bound. nia.
Qed.

(* ---------- the exponent chosen by rnd_pos ---------- *)
(* the unique L with 2^L <= n/d < 2^(L+1) *)
Definition is_flog2 (n d L : Z) : Prop := ge2 n d L /\ lt2 n d (L + 1).
Lemma flog2_unique : forall n d L L', 0 < n -> 0 < d -> is_flog2 n d L -> is_flog2 n d L' -> L = L'.
Proof.
  intros n d L L' Hn Hd [G L1] [G' L1'].
  destruct (Z_lt_le_dec L L').
  - exfalso. apply (ge2_lt2 n d (L + 1) Hd). split; [eapply ge2_mono; [| | |exact G']; lia | exact L1].
  - destruct (Z_lt_le_dec L' L); [|lia].
    exfalso. apply (ge2_lt2 n d (L' + 1) Hd). split; [eapply ge2_mono; [| | |exact G]; lia | exact L1'].
Qed.

Definition e1_of (p n d : Z) : Z :=
  let l := Z.log2 n - Z.log2 d in let e0 := l - p in
  if 2 ^ p <=? sc_q n d e0 then e0 + 1 else e0.
Lemma e1_spec : forall p n d, 0 < p -> 0 < n -> 0 < d -> is_flog2 n d (e1_of p n d + p - 1).
Proof.
  intros p n d Hp Hn Hd. unfold e1_of. cbv zeta.
  destruct (log2_bracket n d Hn Hd) as [B1 B2]. set (l := Z.log2 n - Z.log2 d) in *.
  destruct (2 ^ p <=? sc_q n d (l - p)) eqn:E.
  - apply Z.leb_le in E. apply (q_ge_pow n d (l - p) p Hn Hd ltac:(lia)) in E.
    replace (p + (l - p)) with l in E by lia. split.
    + replace (l - p + 1 + p - 1) with l by lia. exact E.
    + replace (l - p + 1 + p - 1 + 1) with (l + 1) by lia. exact B2.
  - apply Z.leb_gt in E. apply (q_lt_pow n d (l - p) p Hn Hd ltac:(lia)) in E.
    replace (p + (l - p)) with l in E by lia. split.
    + replace (l - p + p - 1) with (l - 1) by lia. exact B1.
    + replace (l - p + p - 1 + 1) with l by lia. exact E.
Qed.

(* ---------- rnd_pos in terms of the above ---------- *)
Definition finish_round (f : fmt) (neg : bool) (m e : Z) : fval :=
  if m =? 0 then FZero neg
  else let '(m', e') := if m =? 2 ^ prec f then (2 ^ (prec f - 1), e + 1) else (m, e) in
       if emax f <? e' then FInf neg else FFin neg m' e'.
Definition e_of (f : fmt) (n d : Z) : Z := Z.max (e1_of (prec f) n d) (emin f).
Definition m_of (f : fmt) (n d : Z) : Z :=
  let e := e_of f n d in rne (sc_q n d e) (sc_r n d e) (sc_den n d e).
Lemma rnd_pos_unfold : forall f neg n d, rnd_pos f neg n d = finish_round f neg (m_of f n d) (e_of f n d).
Proof.
  intros f neg n d. unfold rnd_pos, finish_round, m_of, e_of, e1_of. cbv zeta.
  rewrite (scaled_eta n d (Z.log2 n - Z.log2 d - prec f)).
  set (e := Z.max _ (emin f)). rewrite (scaled_eta n d e). reflexivity.
Qed.

(* ---------- the result depends on the rational only ---------- *)
Section Ratio.
  Variables n d n' d' : Z.
  Hypothesis Hn : 0 < n. Hypothesis Hd : 0 < d. Hypothesis Hn' : 0 < n'. Hypothesis Hd' : 0 < d'.
  Hypothesis Heq : n * d' = n' * d.

  Lemma ge2_ratio : forall k, ge2 n d k <-> ge2 n' d' k.
  Proof.
    intros k. unfold ge2. destruct (0 <=? k) eqn:E.
    - apply Z.leb_le in E. pose proof (pow2_pos k E). split; intros; nia.
    - apply Z.leb_gt in E. pose proof (pow2_pos (- k) ltac:(lia)). split; intros; nia.
  Qed.
  Lemma lt2_ratio : forall k, lt2 n d k <-> lt2 n' d' k.
  Proof.
    intros k. unfold lt2. destruct (0 <=? k) eqn:E.
    - apply Z.leb_le in E. pose proof (pow2_pos k E). split; intros; nia.
    - apply Z.leb_gt in E. pose proof (pow2_pos (- k) ltac:(lia)). split; intros; nia.
  Qed.
  Lemma e1_ratio : forall p, 0 < p -> e1_of p n d = e1_of p n' d'.
  Proof.
    intros p Hp. pose proof (e1_spec p n d Hp Hn Hd) as [A B]. pose proof (e1_spec p n' d' Hp Hn' Hd') as S'.
    apply ge2_ratio in A. apply lt2_ratio in B.
    pose proof (flog2_unique n' d' _ _ Hn' Hd' (conj A B) S'). lia.
  Qed.
End Ratio.

Lemma div_ratio : forall a b a' b', 0 <= a -> 0 < b -> 0 <= a' -> 0 < b' -> a * b' = a' * b -> a / b = a' / b'.
Proof.
  intros a b a' b' Ha Hb Ha' Hb' H.
  pose proof (Z.div_mod a b ltac:(lia)) as E. pose proof (Z.mod_pos_bound a b Hb) as B.
  set (q := a / b) in *. set (r := a mod b) in *.
  assert (K : (a' - b' * q) * b = r * b') by nia.
  apply Z.div_unique with (r := a' - b' * q).
  - left. split.
    + apply (Z.mul_nonneg_cancel_r _ b Hb). rewrite K. apply Z.mul_nonneg_nonneg; lia.
    + assert (X : r * b' < b * b') by (apply Z.mul_lt_mono_pos_r; lia).
      apply (Z.mul_lt_mono_pos_r b _ _ Hb). rewrite K. rewrite (Z.mul_comm b' b). exact X.
  - lia.
Qed.

(* numerator / denominator view of (n/d)/2^e *)
Definition sc_num (n e : Z) : Z := if e <? 0 then n * 2 ^ (- e) else n.
Lemma sc_qr : forall n d e, 0 < n -> 0 < d ->
  0 < sc_den n d e /\ sc_num n e = sc_q n d e * sc_den n d e + sc_r n d e /\ 0 <= sc_r n d e < sc_den n d e
  /\ sc_q n d e = sc_num n e / sc_den n d e.
Proof.
  intros n d e Hn Hd. unfold sc_num. destruct (Z_lt_le_dec e 0) as [He|He].
  - destruct (scaled_neg n d e He) as [Q [R D]]. replace (e <? 0) with true by (symmetry; apply Z.ltb_lt; lia).
    rewrite Q, R, D. pose proof (Z.div_mod (n * 2 ^ (- e)) d ltac:(lia)). pose proof (Z.mod_pos_bound (n * 2 ^ (- e)) d Hd).
    repeat split; try lia.
  - destruct (scaled_nonneg n d e He) as [Q [R D]]. replace (e <? 0) with false by (symmetry; apply Z.ltb_ge; lia).
    rewrite Q, R, D. pose proof (pow2_pos e He). assert (0 < d * 2 ^ e) by nia.
    pose proof (Z.div_mod n (d * 2 ^ e) ltac:(lia)). pose proof (Z.mod_pos_bound n (d * 2 ^ e) ltac:(lia)).
    repeat split; try lia.
Qed.
Lemma sc_cross : forall n d n' d' e, 0 < n -> 0 < d -> 0 < n' -> 0 < d' -> n * d' = n' * d ->
  sc_num n e * sc_den n' d' e = sc_num n' e * sc_den n d e.
Proof.
  intros n d n' d' e Hn Hd Hn' Hd' H. unfold sc_num. destruct (Z_lt_le_dec e 0) as [He|He].
  - destruct (scaled_neg n d e He) as [_ [_ D]]. destruct (scaled_neg n' d' e He) as [_ [_ D']].
    replace (e <? 0) with true by (symmetry; apply Z.ltb_lt; lia). rewrite D, D'. nia.
  - destruct (scaled_nonneg n d e He) as [_ [_ D]]. destruct (scaled_nonneg n' d' e He) as [_ [_ D']].
    replace (e <? 0) with false by (symmetry; apply Z.ltb_ge; lia). rewrite D, D'. nia.
Qed.

Lemma rne_ratio : forall n d n' d' e, 0 < n -> 0 < d -> 0 < n' -> 0 < d' -> n * d' = n' * d ->
  rne (sc_q n d e) (sc_r n d e) (sc_den n d e) = rne (sc_q n' d' e) (sc_r n' d' e) (sc_den n' d' e).
Proof.
  intros n d n' d' e Hn Hd Hn' Hd' H.
  destruct (sc_qr n d e Hn Hd) as [D [E [R Q]]]. destruct (sc_qr n' d' e Hn' Hd') as [D' [E' [R' Q']]].
  pose proof (sc_cross n d n' d' e Hn Hd Hn' Hd' H) as X.
  assert (Hnum : 0 <= sc_num n e /\ 0 <= sc_num n' e).
  { unfold sc_num. destruct (e <? 0) eqn:Ee; [apply Z.ltb_lt in Ee; pose proof (pow2_pos (- e) ltac:(lia)); nia | lia]. }
  assert (Hq : sc_q n d e = sc_q n' d' e).
  { rewrite Q, Q'. apply div_ratio; lia. }
  unfold rne. rewrite <- Hq.
  assert (Hc : (2 * sc_r n d e ?= sc_den n d e) = (2 * sc_r n' d' e ?= sc_den n' d' e)).
  { set (q := sc_q n d e) in *. rewrite <- Hq in E'.
    destruct (Z.compare_spec (2 * sc_r n d e) (sc_den n d e)) as [C|C|C];
      destruct (Z.compare_spec (2 * sc_r n' d' e) (sc_den n' d' e)) as [C'|C'|C']; try reflexivity; exfalso; nia. }
  rewrite Hc. reflexivity.
Qed.

Theorem rnd_pos_ratio : forall f neg n d n' d', 0 < prec f -> 0 < n -> 0 < d -> 0 < n' -> 0 < d' -> n * d' = n' * d ->
  rnd_pos f neg n d = rnd_pos f neg n' d'.
Proof.
  intros f neg n d n' d' Hp Hn Hd Hn' Hd' H. rewrite !rnd_pos_unfold.
  assert (He : e_of f n d = e_of f n' d') by (unfold e_of; rewrite (e1_ratio n d n' d' Hn Hd Hn' Hd' H (prec f) Hp); reflexivity).
  unfold m_of. cbv zeta. rewrite <- He. rewrite (rne_ratio n d n' d' (e_of f n d) Hn Hd Hn' Hd' H). reflexivity.
Qed.

(* ---------- representable values are fixed points ---------- *)
(* canonical finite values of a format: normal (full significand) or subnormal (minimal exponent) *)
Definition canonical (f : fmt) (m e : Z) : Prop :=
  0 < m < 2 ^ prec f /\ emin f <= e <= emax f /\ (m < 2 ^ (prec f - 1) -> e = emin f).

Lemma rat_of_pos : forall m e, 0 < m -> 0 < fst (rat_of m e) /\ 0 < snd (rat_of m e).
Proof.
  intros m e Hm. unfold rat_of. destruct (e <? 0) eqn:E; cbn [fst snd].
  - apply Z.ltb_lt in E. pose proof (pow2_pos (- e) ltac:(lia)). lia.
  - apply Z.ltb_ge in E. pose proof (pow2_pos e E). nia.
Qed.
Lemma rat_of_scaled : forall m e, 0 < m ->
  sc_q (fst (rat_of m e)) (snd (rat_of m e)) e = m /\ sc_r (fst (rat_of m e)) (snd (rat_of m e)) e = 0.
Proof.
  intros m e Hm. unfold rat_of. destruct (Z_lt_le_dec e 0) as [He|He].
  - replace (e <? 0) with true by (symmetry; apply Z.ltb_lt; lia). cbn [fst snd].
    destruct (scaled_neg m (2 ^ (- e)) e He) as [Q [R _]]. rewrite Q, R.
    pose proof (pow2_pos (- e) ltac:(lia)). split; [apply Z.div_mul; lia | apply Z.mod_mul; lia].
  - replace (e <? 0) with false by (symmetry; apply Z.ltb_ge; lia). cbn [fst snd].
    destruct (scaled_nonneg (m * 2 ^ e) 1 e He) as [Q [R _]]. rewrite Q, R. rewrite Z.mul_1_l.
    pose proof (pow2_pos e He). split; [apply Z.div_mul; lia | apply Z.mod_mul; lia].
Qed.
(* 2^k <= m*2^e  <->  k - e <= log2 m *)
Lemma rat_of_flog2 : forall m e, 0 < m -> is_flog2 (fst (rat_of m e)) (snd (rat_of m e)) (Z.log2 m + e).
Proof.
  intros m e Hm. destruct (rat_of_pos m e Hm) as [Pn Pd].
  destruct (rat_of_scaled m e Hm) as [Q _].
  pose proof (Z.log2_nonneg m) as Lm. destruct (Z.log2_spec m Hm) as [L1 L2].
  split.
  - apply (q_ge_pow _ _ e (Z.log2 m) Pn Pd Lm). rewrite Q. exact L1.
  - replace (Z.log2 m + e + 1) with (Z.succ (Z.log2 m) + e) by lia.
    apply (q_lt_pow _ _ e (Z.succ (Z.log2 m)) Pn Pd ltac:(lia)). rewrite Q. exact L2.
Qed.

Theorem rnd_pos_fixpoint : forall f neg m e, 0 < prec f -> canonical f m e ->
  rnd_pos f neg (fst (rat_of m e)) (snd (rat_of m e)) = FFin neg m e.
Proof.
  intros f neg m e Hp [[Hm1 Hm2] [[He1 He2] Hsub]].
  destruct (rat_of_pos m e Hm1) as [Pn Pd]. set (n := fst (rat_of m e)) in *. set (d := snd (rat_of m e)) in *.
  rewrite rnd_pos_unfold.
  assert (HL : e1_of (prec f) n d + prec f - 1 = Z.log2 m + e).
  { apply (flog2_unique n d _ _ Pn Pd); [apply e1_spec; assumption | apply rat_of_flog2; assumption]. }
  assert (Hlog : Z.log2 m < prec f) by (apply Z.log2_lt_pow2; lia).
  assert (Hee : e_of f n d = e).
  { unfold e_of. destruct (Z_lt_le_dec m (2 ^ (prec f - 1))) as [Hs|Hn].
    - (* subnormal *) rewrite (Hsub Hs). assert (Z.log2 m < prec f - 1) by (apply Z.log2_lt_pow2; lia). specialize (Hsub Hs). lia.
    - (* normal *) assert (prec f - 1 <= Z.log2 m) by (apply Z.log2_le_pow2; lia). lia. }
  unfold m_of. cbv zeta. rewrite Hee. destruct (rat_of_scaled m e Hm1) as [Q R]. fold n d in Q, R. rewrite Q, R.
  unfold rne. cbn [Z.mul]. destruct (sc_qr n d e Pn Pd) as [D _].
  replace (0 ?= sc_den n d e) with Lt by (symmetry; apply Z.compare_lt_iff; lia).
  unfold finish_round. replace (m =? 0) with false by (symmetry; apply Z.eqb_neq; lia).
  replace (m =? 2 ^ prec f) with false by (symmetry; apply Z.eqb_neq; lia).
  replace (emax f <? e) with false by (symmetry; apply Z.ltb_ge; lia). reflexivity.
Qed.

(* ---------- accuracy: the result is within half a unit of the last place ---------- *)
Lemma rne_near : forall q r den, 0 <= r < den -> let m := rne q r den in
  q <= m <= q + 1 /\ - den <= 2 * (q * den + r) - 2 * m * den <= den.
Proof.
  intros q r den H m. unfold m, rne.
  destruct (Z.compare_spec (2 * r) den) as [C|C|C].
  - destruct (Z.even q); split; nia.
  - split; nia.
  - split; nia.
Qed.

(* value of the rounding before normalisation: m_of * 2^e_of approximates n/d *)
Lemma m_of_near : forall f n d, 0 < n -> 0 < d ->
  let e := e_of f n d in let m := m_of f n d in
  - sc_den n d e <= 2 * sc_num n e - 2 * m * sc_den n d e <= sc_den n d e.
Proof.
  intros f n d Hn Hd e m. destruct (sc_qr n d e Hn Hd) as [D [E [R Q]]].
  pose proof (rne_near (sc_q n d e) (sc_r n d e) (sc_den n d e) R) as [_ N]. cbv zeta in N.
  unfold m, m_of. cbv zeta. fold e. rewrite E. exact N.
Qed.

(* ---------- a decimal that denotes a representable value parses to exactly that value ---------- *)
Theorem dec_exact : forall f neg m e M E, 0 < prec f -> 0 < m -> canonical f M E ->
  (400 <? ndigits m + e) = false -> (ndigits m + e <? -400) = false ->
  (if 0 <=? e then m * 10 ^ e * snd (rat_of M E) = fst (rat_of M E)
   else m * snd (rat_of M E) = fst (rat_of M E) * 10 ^ (- e)) ->
  dec_to_f f (DNum neg m e) = FFin neg M E.
Proof.
  intros f neg m e M E Hp Hm Hc G1 G2 Hv. unfold dec_to_f.
  replace (m =? 0) with false by (symmetry; apply Z.eqb_neq; lia). cbv zeta. rewrite G1, G2.
  destruct Hc as [[HM1 HM2] Hrest]. destruct (rat_of_pos M E HM1) as [Pn Pd].
  rewrite <- (rnd_pos_fixpoint f neg M E Hp (conj (conj HM1 HM2) Hrest)).
  destruct (0 <=? e) eqn:Ee.
  - apply Z.leb_le in Ee. assert (0 < 10 ^ e) by (apply Z.pow_pos_nonneg; lia).
    apply rnd_pos_ratio; try assumption; try nia.
  - apply Z.leb_gt in Ee. assert (0 < 10 ^ (- e)) by (apply Z.pow_pos_nonneg; lia).
    apply rnd_pos_ratio; try assumption; try nia.
Qed.

(* ---------- decimal seconds with at most 9 fractional digits -> Duration, exact to the nanosecond ---------- *)
(* rounding a rational that lies strictly within 1/2 of an integer gives that integer *)
Lemma rne_unique : forall q r den N, 0 < den -> 0 <= r < den ->
  - den < 2 * (q * den + r) - 2 * N * den < den -> rne q r den = N.
Proof.
  intros q r den N Hd Hr H. unfold rne.
  assert (q = N \/ q = N - 1) by nia.
  destruct (Z.compare_spec (2 * r) den) as [C|C|C]; destruct H0 as [-> | ->]; try lia; try nia.
Qed.

Lemma pow2_mono : forall a b, 0 <= a <= b -> 2 ^ a <= 2 ^ b.
Proof. intros. apply Z.pow_le_mono_r; lia. Qed.

(* exponent and significand of the rounding in the normal range *)
Lemma normal_range : forall f n d lo hi, 0 < prec f -> 0 < n -> 0 < d ->
  ge2 n d lo -> lt2 n d hi -> emin f <= lo - prec f + 1 ->
  let e := e_of f n d in
  lo - prec f + 1 <= e <= hi - prec f /\ 2 ^ (prec f - 1) <= m_of f n d <= 2 ^ prec f.
Proof.
  intros f n d lo hi Hp Hn Hd Hlo Hhi Hemin e.
  pose proof (e1_spec (prec f) n d Hp Hn Hd) as [G L]. set (e1 := e1_of (prec f) n d) in *.
  assert (E1lo : lo - prec f + 1 <= e1).
  { destruct (Z_lt_le_dec e1 (lo - prec f + 1)); [|assumption]. exfalso.
    apply (ge2_lt2 n d (e1 + prec f - 1 + 1) Hd). split; [eapply ge2_mono; [| | |exact Hlo]; lia | exact L]. }
  assert (E1hi : e1 <= hi - prec f).
  { destruct (Z_lt_le_dec (hi - prec f) e1); [|assumption]. exfalso.
    apply (ge2_lt2 n d hi Hd). split; [eapply ge2_mono; [| | |exact G]; lia | exact Hhi]. }
  assert (Ee : e = e1) by (unfold e, e_of; fold e1; lia).
  split; [lia|].
  unfold m_of. cbv zeta. fold e. rewrite Ee.
  destruct (sc_qr n d e1 Hn Hd) as [D [_ [R _]]].
  pose proof (rne_near (sc_q n d e1) (sc_r n d e1) (sc_den n d e1) R) as [Nq _]. cbv zeta in Nq.
  assert (Q1 : 2 ^ (prec f - 1) <= sc_q n d e1).
  { apply (q_ge_pow n d e1 (prec f - 1) Hn Hd ltac:(lia)). replace (prec f - 1 + e1) with (e1 + prec f - 1) by lia. exact G. }
  assert (Q2 : sc_q n d e1 < 2 ^ prec f).
  { apply (q_lt_pow n d e1 (prec f) Hn Hd ltac:(lia)). replace (prec f + e1) with (e1 + prec f - 1 + 1) by lia. exact L. }
  lia.
Qed.

Lemma dur_fin : forall M k ns, 0 < M -> Z.log2 M - k < 64 -> 0 <= k ->
  - 2 ^ k < 2 * (M * 1000000000) - 2 * ns * 2 ^ k < 2 ^ k -> dur_of_f (FFin false M (- k)) = Some ns.
Proof.
  intros M k ns HM HL Hk H. unfold dur_of_f.
  replace (64 <=? Z.log2 M + - k) with false by (symmetry; apply Z.leb_gt; lia).
  rewrite (scaled_eta (M * 1000000000) 1 (- - k)).
  assert (P : 0 < M * 1000000000) by lia.
  destruct (sc_qr (M * 1000000000) 1 (- - k) P ltac:(lia)) as [D [E [R _]]].
  destruct (scaled_nonneg (M * 1000000000) 1 (- - k) ltac:(lia)) as [_ [_ Dn]].
  replace (- - k) with k in * by lia. rewrite Z.mul_1_l in Dn.
  unfold sc_num in E. replace (k <? 0) with false in E by (symmetry; apply Z.ltb_ge; lia).
  f_equal. apply rne_unique; [assumption | assumption |]. rewrite <- E, Dn. exact H.
Qed.

(* the conversion of a rational number of seconds n/d (2^-30 <= n/d < 2^20) whose nanosecond count ns = n/d * 10^9 is an integer:
   rounding to f64 and Duration::from_secs_f64 give exactly ns *)
Theorem dur_of_rnd_exact : forall n d ns, 0 < n -> 0 < d -> ns * d = n * 1000000000 ->
  ge2 n d (-30) -> lt2 n d 20 -> dur_of_f (rnd_pos b64 false n d) = Some ns.
Proof.
  intros n d ns Hn Hd Hns Hlo Hhi.
  pose proof (normal_range b64 n d (-30) 20 ltac:(reflexivity) Hn Hd Hlo Hhi ltac:(cbn; lia)) as [He HM].
  cbv zeta in He. change (prec b64) with 53 in *.
  pose proof (m_of_near b64 n d Hn Hd) as Near. cbv zeta in Near.
  rewrite rnd_pos_unfold. set (e := e_of b64 n d) in *. set (M := m_of b64 n d) in *.
  assert (Ee : e < 0) by lia.
  destruct (scaled_neg n d e Ee) as [_ [_ Dn]]. rewrite Dn in Near.
  unfold sc_num in Near. replace (e <? 0) with true in Near by (symmetry; apply Z.ltb_lt; lia).
  set (k := - e) in *. assert (Hk : 33 <= k <= 82) by lia.
  assert (P33 : 2 ^ 33 <= 2 ^ k) by (apply pow2_mono; lia).
  assert (P32 : 2 ^ 32 <= 2 ^ (k - 1)) by (apply pow2_mono; lia).
  assert (Pk : 2 ^ k = 2 * 2 ^ (k - 1)).
  { replace k with (1 + (k - 1)) at 1 by lia. rewrite pow2_split by lia. reflexivity. }
  change (2 ^ 33) with 8589934592 in P33. change (2 ^ 32) with 4294967296 in P32.
  set (P := 2 ^ k) in *.
  (* |2 ns P - 2 M T| <= T *)
  assert (N1 : - 1000000000 <= 2 * ns * P - 2 * M * 1000000000 <= 1000000000).
  { assert (A : 2 * ns * P * d = 2 * n * P * 1000000000) by nia.
    split; apply Z.mul_le_mono_pos_r with (p := d); try assumption; nia. }
  change (2 ^ (53 - 1)) with 4503599627370496 in HM. change (2 ^ 53) with 9007199254740992 in HM.
  unfold finish_round. change (prec b64) with 53. change (emax b64) with 971.
  replace (M =? 0) with false by (symmetry; apply Z.eqb_neq; lia).
  change (2 ^ 53) with 9007199254740992. change (2 ^ (53 - 1)) with 4503599627370496.
  destruct (M =? 9007199254740992) eqn:EM.
  - apply Z.eqb_eq in EM.
    replace (971 <? e + 1) with false by (symmetry; apply Z.ltb_ge; lia).
    replace (e + 1) with (- (k - 1)) by lia.
    apply dur_fin; [lia | change (Z.log2 4503599627370496) with 52; lia | lia |].
    rewrite EM in N1. lia.
  - apply Z.eqb_neq in EM.
    replace (971 <? e) with false by (symmetry; apply Z.ltb_ge; lia).
    replace e with (- k) by lia.
    apply dur_fin; [lia | | lia | fold P; lia].
    assert (Z.log2 M <= Z.log2 9007199254740992) by (apply Z.log2_le_mono; lia).
    change (Z.log2 9007199254740992) with 53 in *. lia.
Qed.

(* a decimal with at most nine fractional digits, below 2^20 seconds: text -> f64 -> Duration is exact to the nanosecond *)
Theorem dec_duration_exact : forall m fc, 0 < m -> 0 <= fc <= 9 -> m < 1048576 * 10 ^ fc ->
  dur_of_f (dec_to_f b64 (DNum false m (- fc))) = Some (m * 10 ^ (9 - fc)).
Proof.
  intros m fc Hm Hfc Hlt. unfold dec_to_f.
  replace (m =? 0) with false by (symmetry; apply Z.eqb_neq; lia). cbv zeta.
  assert (L : 0 <= Z.log2 m < 50).
  { split; [apply Z.log2_nonneg|]. apply Z.log2_lt_pow2; [lia|].
    assert (10 ^ fc <= 10 ^ 9) by (apply Z.pow_le_mono_r; lia). change (10 ^ 9) with 1000000000 in *.
    change (2 ^ 50) with 1125899906842624. nia. }
  assert (G : 1 <= ndigits m <= 16).
  { unfold ndigits. pose proof (Z.div_le_mono (Z.log2 m * 30103) (49 * 30103) 100000 ltac:(lia) ltac:(lia)) as U.
    pose proof (Z.div_pos (Z.log2 m * 30103) 100000 ltac:(lia) ltac:(lia)).
    change (49 * 30103 / 100000) with 14 in U. lia. }
  replace (400 <? ndigits m + - fc) with false by (symmetry; apply Z.ltb_ge; lia).
  replace (ndigits m + - fc <? -400) with false by (symmetry; apply Z.ltb_ge; lia).
  assert (C : fc = 0 \/ fc = 1 \/ fc = 2 \/ fc = 3 \/ fc = 4 \/ fc = 5 \/ fc = 6 \/ fc = 7 \/ fc = 8 \/ fc = 9) by lia.
  destruct C as [-> | C].
  { change (0 <=? - 0) with true. cbv iota. change (- 0) with 0. change (10 ^ 0) with 1 in *. change (9 - 0) with 9. change (10 ^ 9) with 1000000000.
    apply dur_of_rnd_exact; [lia | lia | lia | |]; unfold ge2, lt2; cbn; lia. }
  assert (Neg : (0 <=? - fc) = false) by (apply Z.leb_gt; lia). rewrite Neg. replace (- - fc) with fc by lia.
  repeat (destruct C as [-> | C]); try subst fc;
    (apply dur_of_rnd_exact; [lia | reflexivity | cbn; lia | unfold ge2; cbn; lia | unfold lt2; cbn in *; lia]).
Qed.

(* ---------- Duration -> f64 seconds (as_secs_f64) -> Duration ---------- *)
(* shape and accuracy of a rounding in the normal range below 2^52 *)
Lemma rnd_near_fin : forall n d lo hi, 0 < n -> 0 < d -> ge2 n d lo -> lt2 n d hi -> -1021 <= lo -> hi <= 52 ->
  exists M k, rnd_pos b64 false n d = FFin false M (- k) /\ 52 - hi <= k <= 52 - lo /\
    4503599627370496 <= M < 9007199254740992 /\ - d <= 2 * n * 2 ^ k - 2 * M * d <= d.
Proof.
  intros n d lo hi Hn Hd Hlo Hhi Hl Hh.
  pose proof (normal_range b64 n d lo hi ltac:(reflexivity) Hn Hd Hlo Hhi ltac:(cbn; lia)) as [He HM].
  cbv zeta in He. change (prec b64) with 53 in *.
  pose proof (m_of_near b64 n d Hn Hd) as Near. cbv zeta in Near.
  rewrite rnd_pos_unfold. set (e := e_of b64 n d) in *. set (M := m_of b64 n d) in *.
  assert (Ee : e < 0) by lia.
  destruct (scaled_neg n d e Ee) as [_ [_ Dn]]. rewrite Dn in Near.
  unfold sc_num in Near. replace (e <? 0) with true in Near by (symmetry; apply Z.ltb_lt; lia).
  change (2 ^ (53 - 1)) with 4503599627370496 in HM. change (2 ^ 53) with 9007199254740992 in HM.
  unfold finish_round. change (prec b64) with 53. change (emax b64) with 971.
  replace (M =? 0) with false by (symmetry; apply Z.eqb_neq; lia).
  change (2 ^ 53) with 9007199254740992. change (2 ^ (53 - 1)) with 4503599627370496.
  destruct (M =? 9007199254740992) eqn:EM.
  - apply Z.eqb_eq in EM.
    replace (971 <? e + 1) with false by (symmetry; apply Z.ltb_ge; lia).
    exists 4503599627370496, (- e - 1). split; [f_equal; lia|]. split; [lia|]. split; [lia|].
    assert (Pk : 2 ^ (- e) = 2 * 2 ^ (- e - 1)).
    { replace (- e) with (1 + (- e - 1)) at 1 by lia. rewrite pow2_split by lia. reflexivity. }
    rewrite EM in Near. rewrite Pk in Near. lia.
  - apply Z.eqb_neq in EM.
    replace (971 <? e) with false by (symmetry; apply Z.ltb_ge; lia).
    exists M, (- e). split; [f_equal; lia|]. split; [lia|]. split; [lia|]. lia.
Qed.

(* n/d within 1/1024 ns of ns nanoseconds, below 2^21 s *)
Theorem dur_of_rnd_near : forall n d ns, 0 < n -> 0 < d ->
  - d <= 1024 * (ns * d - n * 1000000000) <= d ->
  ge2 n d (-30) -> lt2 n d 21 -> dur_of_f (rnd_pos b64 false n d) = Some ns.
Proof.
  intros n d ns Hn Hd Hns Hlo Hhi.
  destruct (rnd_near_fin n d (-30) 21 Hn Hd Hlo Hhi ltac:(lia) ltac:(lia)) as [M [k [E [Hk [HM Near]]]]].
  rewrite E. apply dur_fin; [lia | | lia |].
  - assert (Z.log2 M <= Z.log2 9007199254740992) by (apply Z.log2_le_mono; lia).
    change (Z.log2 9007199254740992) with 53 in *. lia.
  - assert (P31 : 2 ^ 31 <= 2 ^ k) by (apply pow2_mono; lia). change (2 ^ 31) with 2147483648 in P31.
    set (P := 2 ^ k) in *.
    assert (X1 : 512 * (2 * ns * P - 2 * M * 1000000000) * d <= (P + 512 * 1000000000) * d).
    { replace (512 * (2 * ns * P - 2 * M * 1000000000) * d)
        with (P * (1024 * (ns * d - n * 1000000000)) + 512 * 1000000000 * (2 * n * P - 2 * M * d)) by ring.
      assert (P * (1024 * (ns * d - n * 1000000000)) <= P * d) by (apply Z.mul_le_mono_nonneg_l; lia).
      lia. }
    assert (X2 : - ((P + 512 * 1000000000) * d) <= 512 * (2 * ns * P - 2 * M * 1000000000) * d).
    { replace (512 * (2 * ns * P - 2 * M * 1000000000) * d)
        with (P * (1024 * (ns * d - n * 1000000000)) + 512 * 1000000000 * (2 * n * P - 2 * M * d)) by ring.
      assert (P * (- d) <= P * (1024 * (ns * d - n * 1000000000))) by (apply Z.mul_le_mono_nonneg_l; lia).
      lia. }
    assert (Y1 : 512 * (2 * ns * P - 2 * M * 1000000000) <= P + 512 * 1000000000)
      by (apply Z.mul_le_mono_pos_r with (p := d); assumption).
    assert (Y2 : - (P + 512 * 1000000000) <= 512 * (2 * ns * P - 2 * M * 1000000000)).
    { apply Z.mul_le_mono_pos_r with (p := d); [assumption|]. lia. }
    lia.
Qed.

Lemma rnd_int_exact : forall n, 0 < n < 2097152 ->
  exists k, 31 <= k <= 52 /\ rnd_pos b64 false n 1 = FFin false (n * 2 ^ k) (- k).
Proof.
  intros n Hn.
  destruct (rnd_near_fin n 1 0 21 ltac:(lia) ltac:(lia)) as [M [k [E [Hk [HM Near]]]]]; try lia.
  - unfold ge2. cbn. lia.
  - unfold lt2. cbn. lia.
  - exists k. split; [lia|]. rewrite E. f_equal. lia.
Qed.

(* as_secs_f64 followed by from_secs_f64 is the identity below 2^20 seconds *)
Theorem dur_f64_dur : forall ns, 0 <= ns < 1048576 * 1000000000 -> dur_of_f (secs_f64_of_dur ns) = Some ns.
Proof.
  intros ns Hns. unfold secs_f64_of_dur. cbv zeta.
  pose proof (Z.div_mod ns 1000000000 ltac:(lia)) as DM.
  pose proof (Z.mod_pos_bound ns 1000000000 ltac:(lia)) as MB.
  assert (SB : 0 <= ns / 1000000000 < 1048576).
  { split; [apply Z.div_pos; lia | apply Z.div_lt_upper_bound; lia]. }
  set (secs := ns / 1000000000) in *. set (nanos := ns mod 1000000000) in *.
  destruct (secs =? 0) eqn:Es; destruct (nanos =? 0) eqn:En.
  - apply Z.eqb_eq in Es. apply Z.eqb_eq in En. cbn. f_equal. lia.
  - apply Z.eqb_eq in Es. apply Z.eqb_neq in En.
    assert (G : ge2 nanos 1000000000 (-30)) by (unfold ge2; cbn; lia).
    assert (L : lt2 nanos 1000000000 20) by (unfold lt2; cbn; lia).
    destruct (rnd_near_fin nanos 1000000000 (-30) 20 ltac:(lia) ltac:(lia) G L ltac:(lia) ltac:(lia)) as [M [k [E _]]].
    rewrite E. cbn [fadd64]. rewrite <- E.
    apply dur_of_rnd_exact; [lia | lia | lia | exact G | exact L].
  - apply Z.eqb_neq in Es. apply Z.eqb_eq in En.
    destruct (rnd_int_exact secs ltac:(lia)) as [k [_ E]]. rewrite E. cbn [fadd64]. rewrite <- E.
    apply dur_of_rnd_exact; [lia | lia | lia | unfold ge2; cbn; lia | unfold lt2; cbn; lia].
  - apply Z.eqb_neq in Es. apply Z.eqb_neq in En.
    destruct (rnd_int_exact secs ltac:(lia)) as [ka [Hka Ea]]. rewrite Ea.
    assert (G : ge2 nanos 1000000000 (-30)) by (unfold ge2; cbn; lia).
    assert (L : lt2 nanos 1000000000 0) by (unfold lt2; cbn; lia).
    destruct (rnd_near_fin nanos 1000000000 (-30) 0 ltac:(lia) ltac:(lia) G L ltac:(lia) ltac:(lia)) as [Mb [kb [Eb [Hkb [HMb Near]]]]].
    rewrite Eb. cbn [fadd64].
    replace (Z.min (- ka) (- kb)) with (- kb) by lia.
    replace (- kb <? 0) with true by (symmetry; apply Z.ltb_lt; lia).
    replace (- kb - - kb) with 0 by lia. replace (- ka - - kb) with (kb - ka) by lia. replace (- - kb) with kb by lia.
    change (2 ^ 0) with 1. rewrite Z.mul_1_r.
    replace (secs * 2 ^ ka * 2 ^ (kb - ka)) with (secs * 2 ^ kb)
      by (rewrite <- Z.mul_assoc, <- pow2_split by lia; do 2 f_equal; lia).
    assert (P52 : 2 ^ 52 <= 2 ^ kb) by (apply pow2_mono; lia). change (2 ^ 52) with 4503599627370496 in P52.
    set (d := 2 ^ kb) in *.
    apply dur_of_rnd_near.
    + nia.
    + lia.
    + replace (ns * d - (secs * d + Mb) * 1000000000) with (nanos * d - Mb * 1000000000) by (rewrite DM; ring). lia.
    + unfold ge2. cbn. nia.
    + unfold lt2. cbn. nia.
Qed.

(* ---------- the shortest-digits printer returns digits that read back as the same value ---------- *)
Definition cand_round (f : fmt) (D t : Z) : fval :=
  if 0 <=? t then rnd_pos f false (D * 10 ^ t) 1 else rnd_pos f false D (10 ^ (- t)).
Lemma feq_eq : forall a b, feq a b = true -> a = b.
Proof.
  intros a b H. destruct a as [| | |sa ma ea], b as [| | |sb mb eb]; try discriminate. cbn in H.
  apply andb_true_iff in H. destruct H as [H H3]. apply andb_true_iff in H. destruct H as [H1 H2].
  apply Bool.eqb_prop in H1. apply Z.eqb_eq in H2. apply Z.eqb_eq in H3. subst. reflexivity.
Qed.
Lemma cand_ok_round : forall f x D t, cand_ok f x D t = true -> cand_round f D t = x.
Proof.
  intros f x D t H. unfold cand_ok in H. destruct (D <=? 0); [discriminate|]. apply feq_eq in H. symmetry. exact H.
Qed.
Theorem shortest_rounds_back : forall fuel f m e lg k D t, 0 < prec f -> canonical f m e ->
  shortest fuel f (FFin false m e) (fst (rat_of m e)) (snd (rat_of m e)) lg k = (D, t) -> D <> 0 ->
  cand_round f D t = FFin false m e.
Proof.
  induction fuel as [|fu IH]; intros f m e lg k D t Hp Hc H HD.
  - cbn in H. inversion H. subst. contradiction.
  - destruct (rat_of_pos m e ltac:(destruct Hc as [[? ?] _]; assumption)) as [Pn Pd].
    cbn [shortest] in H. cbv zeta in H.
    set (n := fst (rat_of m e)) in *. set (d := snd (rat_of m e)) in *. set (t0 := lg - (k - 1)) in *.
    set (D0 := if 0 <=? t0 then n / (d * 10 ^ t0) else n * 10 ^ (- t0) / d) in *.
    destruct (if 0 <=? t0 then D0 * 10 ^ t0 * d =? n else D0 * d =? n * 10 ^ (- t0)) eqn:Ex.
    + inversion H. subst D t. unfold cand_round.
      rewrite <- (rnd_pos_fixpoint f false m e Hp Hc). fold n d.
      destruct (0 <=? t0) eqn:Et.
      * apply Z.leb_le in Et. apply Z.eqb_eq in Ex. assert (0 < 10 ^ t0) by (apply Z.pow_pos_nonneg; lia).
        apply rnd_pos_ratio; try assumption; try lia; nia.
      * apply Z.leb_gt in Et. apply Z.eqb_eq in Ex. assert (0 < 10 ^ (- t0)) by (apply Z.pow_pos_nonneg; lia).
        apply rnd_pos_ratio; try assumption; try lia; nia.
    + destruct (cand_ok f (FFin false m e) D0 t0) eqn:Lo; destruct (cand_ok f (FFin false m e) (D0 + 1) t0) eqn:Hi.
      * destruct (closer_low n d D0 t0); inversion H; subst D t; apply cand_ok_round; assumption.
      * inversion H; subst D t; apply cand_ok_round; assumption.
      * inversion H; subst D t; apply cand_ok_round; assumption.
      * eapply IH; eassumption.
Qed.

(* the f64 written for a Duration is a normal number *)
Lemma secs_f64_fin : forall ns, 0 < ns < 1048576 * 1000000000 ->
  exists M k, secs_f64_of_dur ns = FFin false M (- k) /\ 4503599627370496 <= M < 9007199254740992 /\ 31 <= k <= 82.
Proof.
  intros ns Hns. unfold secs_f64_of_dur. cbv zeta.
  pose proof (Z.div_mod ns 1000000000 ltac:(lia)) as DM.
  pose proof (Z.mod_pos_bound ns 1000000000 ltac:(lia)) as MB.
  assert (SB : 0 <= ns / 1000000000 < 1048576).
  { split; [apply Z.div_pos; lia | apply Z.div_lt_upper_bound; lia]. }
  set (secs := ns / 1000000000) in *. set (nanos := ns mod 1000000000) in *.
  assert (G : nanos <> 0 -> ge2 nanos 1000000000 (-30)) by (intros; unfold ge2; cbn; lia).
  assert (L : lt2 nanos 1000000000 0) by (unfold lt2; cbn; lia).
  assert (Ga : secs <> 0 -> ge2 secs 1 0) by (intros; unfold ge2; cbn; lia).
  assert (La : lt2 secs 1 21) by (unfold lt2; cbn; lia).
  destruct (secs =? 0) eqn:Es; destruct (nanos =? 0) eqn:En.
  - apply Z.eqb_eq in Es. apply Z.eqb_eq in En. lia.
  - apply Z.eqb_eq in Es. apply Z.eqb_neq in En.
    destruct (rnd_near_fin nanos 1000000000 (-30) 0 ltac:(lia) ltac:(lia) (G En) L ltac:(lia) ltac:(lia)) as [M [k [E [Hk [HM _]]]]].
    rewrite E. cbn [fadd64]. exists M, k. repeat split; lia.
  - apply Z.eqb_neq in Es. apply Z.eqb_eq in En.
    destruct (rnd_near_fin secs 1 0 21 ltac:(lia) ltac:(lia) (Ga Es) La ltac:(lia) ltac:(lia)) as [M [k [E [Hk [HM _]]]]].
    rewrite E. cbn [fadd64]. exists M, k. repeat split; lia.
  - apply Z.eqb_neq in Es. apply Z.eqb_neq in En.
    destruct (rnd_int_exact secs ltac:(lia)) as [ka [Hka Ea]]. rewrite Ea.
    destruct (rnd_near_fin nanos 1000000000 (-30) 0 ltac:(lia) ltac:(lia) (G En) L ltac:(lia) ltac:(lia)) as [Mb [kb [Eb [Hkb [HMb _]]]]].
    rewrite Eb. cbn [fadd64].
    replace (Z.min (- ka) (- kb)) with (- kb) by lia.
    replace (- kb <? 0) with true by (symmetry; apply Z.ltb_lt; lia).
    replace (- kb - - kb) with 0 by lia. replace (- ka - - kb) with (kb - ka) by lia. replace (- - kb) with kb by lia.
    change (2 ^ 0) with 1. rewrite Z.mul_1_r.
    replace (secs * 2 ^ ka * 2 ^ (kb - ka)) with (secs * 2 ^ kb)
      by (rewrite <- Z.mul_assoc, <- pow2_split by lia; do 2 f_equal; lia).
    assert (P52 : 2 ^ 52 <= 2 ^ kb) by (apply pow2_mono; lia). change (2 ^ 52) with 4503599627370496 in P52.
    set (d := 2 ^ kb) in *.
    assert (A1 : 0 < secs * d + Mb) by nia.
    assert (A2 : ge2 (secs * d + Mb) d 0) by (unfold ge2; cbn; nia).
    assert (A3 : lt2 (secs * d + Mb) d 21) by (unfold lt2; cbn; nia).
    destruct (rnd_near_fin (secs * d + Mb) d 0 21 A1 ltac:(lia) A2 A3 ltac:(lia) ltac:(lia)) as [M [k [E [Hk [HM _]]]]].
    rewrite E. exists M, k. repeat split; lia.
Qed.

(* Duration -> f64 -> shortest digits D*10^t -> f64 -> Duration is the identity below 2^20 s, whenever the digit search
   returns digits (it returns (0,0) only when its fuel of 20 digit counts runs out) *)
Theorem duration_digits_roundtrip : forall ns, 0 < ns < 1048576 * 1000000000 ->
  exists m e, secs_f64_of_dur ns = FFin false m e /\ canonical b64 m e /\
    forall lg D t, shortest 20 b64 (FFin false m e) (fst (rat_of m e)) (snd (rat_of m e)) lg 1 = (D, t) -> D <> 0 ->
      dur_of_f (cand_round b64 D t) = Some ns.
Proof.
  intros ns Hns. destruct (secs_f64_fin ns Hns) as [M [k [E [HM Hk]]]].
  exists M, (- k). split; [exact E|].
  assert (C : canonical b64 M (- k)).
  { unfold canonical. change (prec b64) with 53. change (emin b64) with (-1074). change (emax b64) with 971.
    change (2 ^ 53) with 9007199254740992. change (2 ^ (53 - 1)) with 4503599627370496. lia. }
  split; [exact C|].
  intros lg D t H HD. rewrite (shortest_rounds_back 20 b64 M (- k) lg 1 D t ltac:(reflexivity) C H HD).
  rewrite <- E. apply dur_f64_dur. lia.
Qed.
