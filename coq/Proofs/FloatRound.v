(* FloatRound.v — the rounding function of the float model (Model/Float.v: rnd_pos) is round-to-nearest-even on the
   rational n/d and depends on the rational only. *)
From hls Require Import Base Float.
From Coq Require Import ZArith Lia Znumtheory.
Open Scope Z_scope.

(* ---------- comparing a positive rational n/d with 2^k ---------- *)
(* n/d >= 2^k *)
Definition ge2 (n d k : Z) : Prop := if 0 <=? k then d * 2 ^ k <= n else d <= n * 2 ^ (- k).
(* n/d < 2^k *)
Definition lt2 (n d k : Z) : Prop := if 0 <=? k then n < d * 2 ^ k else n * 2 ^ (- k) < d.

Lemma ge2_lt2 : forall n d k, 0 < d -> ~ (ge2 n d k /\ lt2 n d k).
Proof. intros n d k Hd [H1 H2]. unfold ge2, lt2 in *. destruct (0 <=? k); lia. Qed.
Lemma ge2_or_lt2 : forall n d k, ge2 n d k \/ lt2 n d k.
Proof. intros n d k. unfold ge2, lt2. destruct (0 <=? k); lia. Qed.

Lemma pow2_pos : forall k, 0 <= k -> 0 < 2 ^ k.
Proof. intros. apply Z.pow_pos_nonneg; lia. Qed.
Lemma pow2_split : forall a b, 0 <= a -> 0 <= b -> 2 ^ (a + b) = 2 ^ a * 2 ^ b.
Proof. intros. apply Z.pow_add_r; lia. Qed.

(* monotonicity in the exponent *)
Lemma ge2_mono : forall n d k k', 0 < n -> 0 < d -> k' <= k -> ge2 n d k -> ge2 n d k'.
Proof.
  intros n d k k' Hn Hd Hk H. unfold ge2 in *.
  destruct (0 <=? k) eqn:E; destruct (0 <=? k') eqn:E'; try (apply Z.leb_le in E); try (apply Z.leb_le in E');
    try (apply Z.leb_gt in E); try (apply Z.leb_gt in E').
  - replace k with (k' + (k - k')) in H by lia. rewrite pow2_split in H by lia.
    pose proof (pow2_pos (k - k') ltac:(lia)). pose proof (pow2_pos k' E'). nia.
  - pose proof (pow2_pos k E). pose proof (pow2_pos (- k') ltac:(lia)). nia.
  - lia.
  - replace (- k') with (- k + (k - k')) by lia. rewrite pow2_split by lia.
    pose proof (pow2_pos (k - k') ltac:(lia)). pose proof (pow2_pos (- k) ltac:(lia)). nia.
Qed.
Lemma lt2_mono : forall n d k k', 0 < n -> 0 < d -> k <= k' -> lt2 n d k -> lt2 n d k'.
Proof.
  intros n d k k' Hn Hd Hk H.
  destruct (ge2_or_lt2 n d k') as [G|L]; [|exact L].
  exfalso. apply (ge2_lt2 n d k Hd). split; [eapply ge2_mono; eauto | exact H].
Qed.

(* the binary logarithm brackets the rational *)
Lemma log2_bracket : forall n d, 0 < n -> 0 < d ->
  let l := Z.log2 n - Z.log2 d in ge2 n d (l - 1) /\ lt2 n d (l + 1).
Proof.
  intros n d Hn Hd l.
  destruct (Z.log2_spec n Hn) as [N1 N2]. destruct (Z.log2_spec d Hd) as [D1 D2].
  pose proof (Z.log2_nonneg n) as Ln. pose proof (Z.log2_nonneg d) as Ld.
  set (a := Z.log2 n) in *. set (b := Z.log2 d) in *.
  replace (Z.succ a) with (a + 1) in N2 by lia. replace (Z.succ b) with (b + 1) in D2 by lia.
  rewrite pow2_split in N2, D2 by lia. change (2 ^ 1) with 2 in *.
  pose proof (pow2_pos a Ln) as Pa. pose proof (pow2_pos b Ld) as Pb.
  unfold ge2, lt2, l. split.
  - destruct (0 <=? a - b - 1) eqn:E.
    + apply Z.leb_le in E. replace a with (b + 1 + (a - b - 1)) in N1 by lia. rewrite !pow2_split in N1 by lia.
      change (2 ^ 1) with 2 in N1. pose proof (pow2_pos (a - b - 1) E). nia.
    + apply Z.leb_gt in E. replace (- (a - b - 1)) with (b + 1 - a) by lia.
      replace (b + 1) with (a + (b + 1 - a)) in D2 by lia.
      assert (Hx : 2 ^ b * 2 = 2 ^ a * 2 ^ (b + 1 - a)).
      { rewrite <- pow2_split by lia. replace (a + (b + 1 - a)) with (b + 1) by lia. rewrite pow2_split by lia. reflexivity. }
      pose proof (pow2_pos (b + 1 - a) ltac:(lia)). nia.
  - destruct (0 <=? a - b + 1) eqn:E.
    + apply Z.leb_le in E.
      assert (Hx : 2 ^ a * 2 = 2 ^ b * 2 ^ (a - b + 1)).
      { rewrite <- pow2_split by lia. replace (b + (a - b + 1)) with (a + 1) by lia. rewrite pow2_split by lia. reflexivity. }
      pose proof (pow2_pos (a - b + 1) E). nia.
    + apply Z.leb_gt in E. replace (- (a - b + 1)) with (b - a - 1) by lia.
      assert (Hx : 2 ^ b = 2 ^ a * 2 * 2 ^ (b - a - 1)).
      { replace b with (a + 1 + (b - a - 1)) at 1 by lia. rewrite !pow2_split by lia. reflexivity. }
      pose proof (pow2_pos (b - a - 1) ltac:(lia)). nia.
Qed.

(* ---------- scaled: floor and remainder of (n/d) / 2^e ---------- *)
Definition sc_q (n d e : Z) : Z := fst (fst (scaled n d e)).
Definition sc_r (n d e : Z) : Z := snd (fst (scaled n d e)).
Definition sc_den (n d e : Z) : Z := snd (scaled n d e).
Lemma scaled_eta : forall n d e, scaled n d e = (sc_q n d e, sc_r n d e, sc_den n d e).
Proof. intros. unfold sc_q, sc_r, sc_den. destruct (scaled n d e) as [[q r] den]. reflexivity. Qed.

Lemma scaled_neg : forall n d e, e < 0 ->
  sc_q n d e = n * 2 ^ (- e) / d /\ sc_r n d e = (n * 2 ^ (- e)) mod d /\ sc_den n d e = d.
Proof. intros n d e H. unfold sc_q, sc_r, sc_den, scaled. apply Z.ltb_lt in H. rewrite H. cbn [fst snd]. auto. Qed.
Lemma scaled_nonneg : forall n d e, 0 <= e ->
  sc_q n d e = n / (d * 2 ^ e) /\ sc_r n d e = n mod (d * 2 ^ e) /\ sc_den n d e = d * 2 ^ e.
Proof. intros n d e H. unfold sc_q, sc_r, sc_den, scaled. apply Z.ltb_ge in H. rewrite H. cbn [fst snd]. auto. Qed.

Lemma div_ge_iff : forall a x d, 0 < d -> (a <= x / d <-> a * d <= x).
Proof.
  intros a x d Hd. pose proof (Z.div_mod x d ltac:(lia)) as E. pose proof (Z.mod_pos_bound x d Hd) as B. split; intros H; nia.
Qed.

(* q >= 2^j  <->  n/d >= 2^(j+e) *)
Lemma q_ge_pow : forall n d e j, 0 < n -> 0 < d -> 0 <= j -> (2 ^ j <= sc_q n d e <-> ge2 n d (j + e)).
Proof.
  intros n d e j Hn Hd Hj. pose proof (pow2_pos j Hj) as Pj. unfold ge2.
  destruct (Z_lt_le_dec e 0) as [He|He].
  - destruct (scaled_neg n d e He) as [Q _]. rewrite Q. rewrite div_ge_iff by lia.
    pose proof (pow2_pos (- e) ltac:(lia)) as Pe.
    destruct (0 <=? j + e) eqn:E.
    + apply Z.leb_le in E. assert (X : 2 ^ j = 2 ^ (j + e) * 2 ^ (- e)) by (rewrite <- pow2_split by lia; f_equal; lia).
      pose proof (pow2_pos (j + e) E). rewrite X. split; intros; nia.
    + apply Z.leb_gt in E. assert (X : 2 ^ (- e) = 2 ^ j * 2 ^ (- (j + e))) by (rewrite <- pow2_split by lia; f_equal; lia).
      pose proof (pow2_pos (- (j + e)) ltac:(lia)). rewrite X. split; intros; nia.
  - destruct (scaled_nonneg n d e He) as [Q _]. rewrite Q. pose proof (pow2_pos e He) as Pe.
    rewrite div_ge_iff by nia.
    replace (0 <=? j + e) with true by (symmetry; apply Z.leb_le; lia).
    rewrite pow2_split by lia. split; intros; nia.
Qed.
Lemma q_lt_pow : forall n d e j, 0 < n -> 0 < d -> 0 <= j -> (sc_q n d e < 2 ^ j <-> lt2 n d (j + e)).
Proof.
  intros n d e j Hn Hd Hj. pose proof (q_ge_pow n d e j Hn Hd Hj) as G.
  destruct (ge2_or_lt2 n d (j + e)) as [H|H].
  - split; intros X; [apply G in H; lia | exfalso; apply (ge2_lt2 n d (j + e) Hd); tauto].
  - split; intros X; [exact H|]. destruct (Z_lt_le_dec (sc_q n d e) (2 ^ j)); [assumption|].
    exfalso. apply (ge2_lt2 n d (j + e) Hd). split; [apply G; lia | exact H].
Qed.
Lemma sc_q_nonneg : forall n d e, 0 < n -> 0 < d -> 0 <= sc_q n d e.
Proof.
  intros n d e Hn Hd. destruct (Z_lt_le_dec e 0) as [He|He].
  - destruct (scaled_neg n d e He) as [Q _]. rewrite Q. apply Z.div_pos; [|lia]. pose proof (pow2_pos (- e) ltac:(lia)). nia.
  - destruct (scaled_nonneg n d e He) as [Q _]. rewrite Q. pose proof (pow2_pos e He). apply Z.div_pos; nia.
Qed.
Lemma sc_r_bound : forall n d e, 0 < n -> 0 < d -> 0 <= sc_r n d e < sc_den n d e.
Proof.
  intros n d e Hn Hd. destruct (Z_lt_le_dec e 0) as [He|He].
  - destruct (scaled_neg n d e He) as [_ [R D]]. rewrite R, D. apply Z.mod_pos_bound. lia.
  - destruct (scaled_nonneg n d e He) as [_ [R D]]. rewrite R, D. pose proof (pow2_pos e He). apply Z.mod_pos_bound. nia.
Qed.

(* ---------- the exponent chosen by rnd_pos ---------- *)
(* the unique L with 2^L <= n/d < 2^(L+1) *)
Definition is_flog2 (n d L : Z) : Prop := ge2 n d L /\ lt2 n d (L + 1).
Lemma flog2_unique : forall n d L L', 0 < n -> 0 < d -> is_flog2 n d L -> is_flog2 n d L' -> L = L'.
Proof.
  intros n d L L' Hn Hd [G L1] [G' L1'].
  destruct (Z_lt_le_dec L L').
  - exfalso. apply (ge2_lt2 n d (L + 1) Hd). split; [eapply ge2_mono; [| | |exact G']; lia | exact L1].
  - destruct (Z_lt_le_dec L' L); [|lia].
    exfalso. apply (ge2_lt2 n d (L' + 1) Hd). split; [eapply ge2_mono; [| | |exact G]; lia | exact L1'].
Qed.

Definition e1_of (p n d : Z) : Z :=
  let l := Z.log2 n - Z.log2 d in let e0 := l - p in
  if 2 ^ p <=? sc_q n d e0 then e0 + 1 else e0.
Lemma e1_spec : forall p n d, 0 < p -> 0 < n -> 0 < d -> is_flog2 n d (e1_of p n d + p - 1).
Proof.
  intros p n d Hp Hn Hd. unfold e1_of. cbv zeta.
  destruct (log2_bracket n d Hn Hd) as [B1 B2]. set (l := Z.log2 n - Z.log2 d) in *.
  destruct (2 ^ p <=? sc_q n d (l - p)) eqn:E.
  - apply Z.leb_le in E. apply (q_ge_pow n d (l - p) p Hn Hd ltac:(lia)) in E.
    replace (p + (l - p)) with l in E by lia. split.
    + replace (l - p + 1 + p - 1) with l by lia. exact E.
    + replace (l - p + 1 + p - 1 + 1) with (l + 1) by lia. exact B2.
  - apply Z.leb_gt in E. apply (q_lt_pow n d (l - p) p Hn Hd ltac:(lia)) in E.
    replace (p + (l - p)) with l in E by lia. split.
    + replace (l - p + p - 1) with (l - 1) by lia. exact B1.
    + replace (l - p + p - 1 + 1) with l by lia. exact E.
Qed.

(* ---------- rnd_pos in terms of the above ---------- *)
Definition finish_round (f : fmt) (neg : bool) (m e : Z) : fval :=
  if m =? 0 then FZero neg
  else let '(m', e') := if m =? 2 ^ prec f then (2 ^ (prec f - 1), e + 1) else (m, e) in
       if emax f <? e' then FInf neg else FFin neg m' e'.
Definition e_of (f : fmt) (n d : Z) : Z := Z.max (e1_of (prec f) n d) (emin f).
Definition m_of (f : fmt) (n d : Z) : Z :=
  let e := e_of f n d in rne (sc_q n d e) (sc_r n d e) (sc_den n d e).
Lemma rnd_pos_unfold : forall f neg n d, rnd_pos f neg n d = finish_round f neg (m_of f n d) (e_of f n d).
Proof.
  intros f neg n d. unfold rnd_pos, finish_round, m_of, e_of, e1_of. cbv zeta.
  rewrite (scaled_eta n d (Z.log2 n - Z.log2 d - prec f)).
  set (e := Z.max _ (emin f)). rewrite (scaled_eta n d e). reflexivity.
Qed.

(* ---------- the result depends on the rational only ---------- *)
Section Ratio.
  Variables n d n' d' : Z.
  Hypothesis Hn : 0 < n. Hypothesis Hd : 0 < d. Hypothesis Hn' : 0 < n'. Hypothesis Hd' : 0 < d'.
  Hypothesis Heq : n * d' = n' * d.

  Lemma ge2_ratio : forall k, ge2 n d k <-> ge2 n' d' k.
  Proof.
    intros k. unfold ge2. destruct (0 <=? k) eqn:E.
    - apply Z.leb_le in E. pose proof (pow2_pos k E). split; intros; nia.
    - apply Z.leb_gt in E. pose proof (pow2_pos (- k) ltac:(lia)). split; intros; nia.
  Qed.
  Lemma lt2_ratio : forall k, lt2 n d k <-> lt2 n' d' k.
  Proof.
    intros k. unfold lt2. destruct (0 <=? k) eqn:E.
    - apply Z.leb_le in E. pose proof (pow2_pos k E). split; intros; nia.
    - apply Z.leb_gt in E. pose proof (pow2_pos (- k) ltac:(lia)). split; intros; nia.
  Qed.
  Lemma e1_ratio : forall p, 0 < p -> e1_of p n d = e1_of p n' d'.
  Proof.
    intros p Hp. pose proof (e1_spec p n d Hp Hn Hd) as [A B]. pose proof (e1_spec p n' d' Hp Hn' Hd') as S'.
    apply ge2_ratio in A. apply lt2_ratio in B.
    pose proof (flog2_unique n' d' _ _ Hn' Hd' (conj A B) S'). lia.
  Qed.
End Ratio.

Lemma div_ratio : forall a b a' b', 0 <= a -> 0 < b -> 0 <= a' -> 0 < b' -> a * b' = a' * b -> a / b = a' / b'.
Proof.
  intros a b a' b' Ha Hb Ha' Hb' H.
  pose proof (Z.div_mod a b ltac:(lia)) as E. pose proof (Z.mod_pos_bound a b Hb) as B.
  set (q := a / b) in *. set (r := a mod b) in *.
  assert (K : (a' - b' * q) * b = r * b') by nia.
  apply Z.div_unique with (r := a' - b' * q).
  - left. split.
    + apply (Z.mul_nonneg_cancel_r _ b Hb). rewrite K. apply Z.mul_nonneg_nonneg; lia.
    + assert (X : r * b' < b * b') by (apply Z.mul_lt_mono_pos_r; lia).
      apply (Z.mul_lt_mono_pos_r b _ _ Hb). rewrite K. rewrite (Z.mul_comm b' b). exact X.
  - lia.
Qed.

(* numerator / denominator view of (n/d)/2^e *)
Definition sc_num (n e : Z) : Z := if e <? 0 then n * 2 ^ (- e) else n.
Lemma sc_qr : forall n d e, 0 < n -> 0 < d ->
  0 < sc_den n d e /\ sc_num n e = sc_q n d e * sc_den n d e + sc_r n d e /\ 0 <= sc_r n d e < sc_den n d e
  /\ sc_q n d e = sc_num n e / sc_den n d e.
Proof.
  intros n d e Hn Hd. unfold sc_num. destruct (Z_lt_le_dec e 0) as [He|He].
  - destruct (scaled_neg n d e He) as [Q [R D]]. replace (e <? 0) with true by (symmetry; apply Z.ltb_lt; lia).
    rewrite Q, R, D. pose proof (Z.div_mod (n * 2 ^ (- e)) d ltac:(lia)). pose proof (Z.mod_pos_bound (n * 2 ^ (- e)) d Hd).
    repeat split; try lia.
  - destruct (scaled_nonneg n d e He) as [Q [R D]]. replace (e <? 0) with false by (symmetry; apply Z.ltb_ge; lia).
    rewrite Q, R, D. pose proof (pow2_pos e He). assert (0 < d * 2 ^ e) by nia.
    pose proof (Z.div_mod n (d * 2 ^ e) ltac:(lia)). pose proof (Z.mod_pos_bound n (d * 2 ^ e) ltac:(lia)).
    repeat split; try lia.
Qed.
Lemma sc_cross : forall n d n' d' e, 0 < n -> 0 < d -> 0 < n' -> 0 < d' -> n * d' = n' * d ->
  sc_num n e * sc_den n' d' e = sc_num n' e * sc_den n d e.
Proof.
  intros n d n' d' e Hn Hd Hn' Hd' H. unfold sc_num. destruct (Z_lt_le_dec e 0) as [He|He].
  - destruct (scaled_neg n d e He) as [_ [_ D]]. destruct (scaled_neg n' d' e He) as [_ [_ D']].
    replace (e <? 0) with true by (symmetry; apply Z.ltb_lt; lia). rewrite D, D'. nia.
  - destruct (scaled_nonneg n d e He) as [_ [_ D]]. destruct (scaled_nonneg n' d' e He) as [_ [_ D']].
    replace (e <? 0) with false by (symmetry; apply Z.ltb_ge; lia). rewrite D, D'. nia.
Qed.

Lemma rne_ratio : forall n d n' d' e, 0 < n -> 0 < d -> 0 < n' -> 0 < d' -> n * d' = n' * d ->
  rne (sc_q n d e) (sc_r n d e) (sc_den n d e) = rne (sc_q n' d' e) (sc_r n' d' e) (sc_den n' d' e).
Proof.
  intros n d n' d' e Hn Hd Hn' Hd' H.
  destruct (sc_qr n d e Hn Hd) as [D [E [R Q]]]. destruct (sc_qr n' d' e Hn' Hd') as [D' [E' [R' Q']]].
  pose proof (sc_cross n d n' d' e Hn Hd Hn' Hd' H) as X.
  assert (Hnum : 0 <= sc_num n e /\ 0 <= sc_num n' e).
  { unfold sc_num. destruct (e <? 0) eqn:Ee; [apply Z.ltb_lt in Ee; pose proof (pow2_pos (- e) ltac:(lia)); nia | lia]. }
  assert (Hq : sc_q n d e = sc_q n' d' e).
  { rewrite Q, Q'. apply div_ratio; lia. }
  unfold rne. rewrite <- Hq.
  assert (Hc : (2 * sc_r n d e ?= sc_den n d e) = (2 * sc_r n' d' e ?= sc_den n' d' e)).
  { set (q := sc_q n d e) in *. rewrite <- Hq in E'.
    destruct (Z.compare_spec (2 * sc_r n d e) (sc_den n d e)) as [C|C|C];
      destruct (Z.compare_spec (2 * sc_r n' d' e) (sc_den n' d' e)) as [C'|C'|C']; try reflexivity; exfalso; nia. }
  rewrite Hc. reflexivity.
Qed.

Theorem rnd_pos_ratio : forall f neg n d n' d', 0 < prec f -> 0 < n -> 0 < d -> 0 < n' -> 0 < d' -> n * d' = n' * d ->
  rnd_pos f neg n d = rnd_pos f neg n' d'.
Proof.
  intros f neg n d n' d' Hp Hn Hd Hn' Hd' H. rewrite !rnd_pos_unfold.
  assert (He : e_of f n d = e_of f n' d') by (unfold e_of; rewrite (e1_ratio n d n' d' Hn Hd Hn' Hd' H (prec f) Hp); reflexivity).
  unfold m_of. cbv zeta. rewrite <- He. rewrite (rne_ratio n d n' d' (e_of f n d) Hn Hd Hn' Hd' H). reflexivity.
Qed.

(* ---------- representable values are fixed points ---------- *)
(* canonical finite values of a format: normal (full significand) or subnormal (minimal exponent) *)
Definition canonical (f : fmt) (m e : Z) : Prop :=
  0 < m < 2 ^ prec f /\ emin f <= e <= emax f /\ (m < 2 ^ (prec f - 1) -> e = emin f).

Lemma rat_of_pos : forall m e, 0 < m -> 0 < fst (rat_of m e) /\ 0 < snd (rat_of m e).
Proof.
  intros m e Hm. unfold rat_of. destruct (e <? 0) eqn:E; cbn [fst snd].
  - apply Z.ltb_lt in E. pose proof (pow2_pos (- e) ltac:(lia)). lia.
  - apply Z.ltb_ge in E. pose proof (pow2_pos e E). nia.
Qed.
Lemma rat_of_scaled : forall m e, 0 < m ->
  sc_q (fst (rat_of m e)) (snd (rat_of m e)) e = m /\ sc_r (fst (rat_of m e)) (snd (rat_of m e)) e = 0.
Proof.
  intros m e Hm. unfold rat_of. destruct (Z_lt_le_dec e 0) as [He|He].
  - replace (e <? 0) with true by (symmetry; apply Z.ltb_lt; lia). cbn [fst snd].
    destruct (scaled_neg m (2 ^ (- e)) e He) as [Q [R _]]. rewrite Q, R.
    pose proof (pow2_pos (- e) ltac:(lia)). split; [apply Z.div_mul; lia | apply Z.mod_mul; lia].
  - replace (e <? 0) with false by (symmetry; apply Z.ltb_ge; lia). cbn [fst snd].
    destruct (scaled_nonneg (m * 2 ^ e) 1 e He) as [Q [R _]]. rewrite Q, R. rewrite Z.mul_1_l.
    pose proof (pow2_pos e He). split; [apply Z.div_mul; lia | apply Z.mod_mul; lia].
Qed.
(* 2^k <= m*2^e  <->  k - e <= log2 m *)
Lemma rat_of_flog2 : forall m e, 0 < m -> is_flog2 (fst (rat_of m e)) (snd (rat_of m e)) (Z.log2 m + e).
Proof.
  intros m e Hm. destruct (rat_of_pos m e Hm) as [Pn Pd].
  destruct (rat_of_scaled m e Hm) as [Q _].
  pose proof (Z.log2_nonneg m) as Lm. destruct (Z.log2_spec m Hm) as [L1 L2].
  split.
  - apply (q_ge_pow _ _ e (Z.log2 m) Pn Pd Lm). rewrite Q. exact L1.
  - replace (Z.log2 m + e + 1) with (Z.succ (Z.log2 m) + e) by lia.
    apply (q_lt_pow _ _ e (Z.succ (Z.log2 m)) Pn Pd ltac:(lia)). rewrite Q. exact L2.
Qed.

Theorem rnd_pos_fixpoint : forall f neg m e, 0 < prec f -> canonical f m e ->
  rnd_pos f neg (fst (rat_of m e)) (snd (rat_of m e)) = FFin neg m e.
Proof.
  intros f neg m e Hp [[Hm1 Hm2] [[He1 He2] Hsub]].
  destruct (rat_of_pos m e Hm1) as [Pn Pd]. set (n := fst (rat_of m e)) in *. set (d := snd (rat_of m e)) in *.
  rewrite rnd_pos_unfold.
  assert (HL : e1_of (prec f) n d + prec f - 1 = Z.log2 m + e).
  { apply (flog2_unique n d _ _ Pn Pd); [apply e1_spec; assumption | apply rat_of_flog2; assumption]. }
  assert (Hlog : Z.log2 m < prec f) by (apply Z.log2_lt_pow2; lia).
  assert (Hee : e_of f n d = e).
  { unfold e_of. destruct (Z_lt_le_dec m (2 ^ (prec f - 1))) as [Hs|Hn].
    - (* subnormal *) rewrite (Hsub Hs). assert (Z.log2 m < prec f - 1) by (apply Z.log2_lt_pow2; lia). specialize (Hsub Hs). lia.
    - (* normal *) assert (prec f - 1 <= Z.log2 m) by (apply Z.log2_le_pow2; lia). lia. }
  unfold m_of. cbv zeta. rewrite Hee. destruct (rat_of_scaled m e Hm1) as [Q R]. fold n d in Q, R. rewrite Q, R.
  unfold rne. cbn [Z.mul]. destruct (sc_qr n d e Pn Pd) as [D _].
  replace (0 ?= sc_den n d e) with Lt by (symmetry; apply Z.compare_lt_iff; lia).
  unfold finish_round. replace (m =? 0) with false by (symmetry; apply Z.eqb_neq; lia).
  replace (m =? 2 ^ prec f) with false by (symmetry; apply Z.eqb_neq; lia).
  replace (emax f <? e) with false by (symmetry; apply Z.ltb_ge; lia). reflexivity.
Qed.

(* ---------- accuracy: the result is within half a unit of the last place ---------- *)
Lemma rne_near : forall q r den, 0 <= r < den -> let m := rne q r den in
  q <= m <= q + 1 /\ - den <= 2 * (q * den + r) - 2 * m * den <= den.
Proof.
  intros q r den H m. unfold m, rne.
  destruct (Z.compare_spec (2 * r) den) as [C|C|C].
  - destruct (Z.even q); split; nia.
  - split; nia.
  - split; nia.
Qed.

(* value of the rounding before normalisation: m_of * 2^e_of approximates n/d *)
Lemma m_of_near : forall f n d, 0 < n -> 0 < d ->
  let e := e_of f n d in let m := m_of f n d in
  - sc_den n d e <= 2 * sc_num n e - 2 * m * sc_den n d e <= sc_den n d e.
Proof.
  intros f n d Hn Hd e m. destruct (sc_qr n d e Hn Hd) as [D [E [R Q]]].
  pose proof (rne_near (sc_q n d e) (sc_r n d e) (sc_den n d e) R) as [_ N]. cbv zeta in N.
  unfold m, m_of. cbv zeta. fold e. rewrite E. exact N.
Qed.
