(* FloatGuard.v — the decimal the reader sees for the writer's digits lies inside the reader's magnitude guard, for every value
   between 2^-150 and 2^131 (all finite f32 values, and the f64 values durations use); with FloatText and FloatDigits this gives
   the unconditional text round trip. *)
From hls Require Import Base Float Types.
From hls.Proofs Require Import FloatRound FloatNear FloatDigits DurationText FloatText.
From Coq Require Import Lia.
Local Open Scope Z_scope.

(* what the search returns: a digit count within the fuel, and at most the floor digit plus one *)
Lemma shortest_shape : forall fuel f x n d lg k D t, shortest fuel f x n d lg k = (D, t) -> D <> 0 ->
  exists k', k <= k' < k + Z.of_nat fuel /\ t = lg - (k' - 1) /\ D <= digit_at n d t + 1.
Proof.
  induction fuel as [|fu IH]; intros f x n d lg k D t H HD.
  - cbn in H. inversion H. subst. contradiction.
  - cbn [shortest] in H. cbv zeta in H. set (t0 := lg - (k - 1)) in *.
    rewrite (digit_at_eq n d t0) in H. set (D0 := digit_at n d t0) in *.
    assert (Here : forall Dx, Dx <= D0 + 1 -> (Dx, t0) = (D, t) -> exists k', k <= k' < k + Z.of_nat (S fu) /\ t = lg - (k' - 1) /\ D <= digit_at n d t + 1).
    { intros Dx Hx E. inversion E. subst D t. exists k. split; [lia|]. split; [reflexivity|]. fold D0. lia. }
    destruct (if 0 <=? t0 then D0 * 10 ^ t0 * d =? n else D0 * d =? n * 10 ^ (- t0)).
    + apply (Here D0); [lia | exact H].
    + destruct (cand_ok f x D0 t0); destruct (cand_ok f x (D0 + 1) t0).
      * destruct (closer_low n d D0 t0); [apply (Here (D0 + 1)) | apply (Here D0) | apply (Here (D0 + 1))]; try lia; exact H.
      * apply (Here D0); [lia | exact H].
      * apply (Here (D0 + 1)); [lia | exact H].
      * destruct (IH f x n d lg (k + 1) D t H HD) as [k' [A [B C]]]. exists k'. split; [lia|]. split; assumption.
Qed.
Lemma flog10_range : forall n d, let e := est10 (Z.log2 n - Z.log2 d) in e - 2 <= flog10 n d <= e + 2.
Proof.
  intros n d e. unfold flog10. cbv zeta. fold (est10 (Z.log2 n - Z.log2 d)). fold e.
  repeat match goal with |- context [if ?c then _ else _] => destruct c end; lia.
Qed.

Lemma strip_tz_inv : forall fuel D t, 0 < D ->
  let r := strip_tz D t fuel in 0 < fst r <= D /\ t <= snd r /\ fst r * 10 ^ (snd r - t) = D.
Proof.
  induction fuel as [|fu IH]; intros D t HD; cbn [strip_tz].
  - cbn [fst snd]. replace (t - t) with 0 by lia. cbn. lia.
  - destruct ((D mod 10 =? 0) && negb (D =? 0)) eqn:E.
    + apply andb_true_iff in E. destruct E as [E _]. apply Z.eqb_eq in E.
      pose proof (Z.div_mod D 10 ltac:(lia)) as DM. rewrite E in DM.
      destruct (IH (D / 10) (t + 1) ltac:(lia)) as [A [B C]]. cbv zeta. split; [lia|]. split; [lia|].
      replace (snd (strip_tz (D / 10) (t + 1) fu) - t) with (1 + (snd (strip_tz (D / 10) (t + 1) fu) - (t + 1))) by lia.
      rewrite Z.pow_add_r by lia. change (10 ^ 1) with 10. nia.
    + cbn [fst snd]. replace (t - t) with 0 by lia. cbn. lia.
Qed.

Lemma ndigits_mono : forall a b, 0 < a <= b -> 1 <= ndigits a <= ndigits b.
Proof.
  intros a b H. unfold ndigits. pose proof (Z.log2_le_mono a b ltac:(lia)). pose proof (Z.log2_nonneg a).
  assert (Z.log2 a * 30103 / 100000 <= Z.log2 b * 30103 / 100000) by (apply Z.div_le_mono; lia).
  assert (0 <= Z.log2 a * 30103 / 100000) by (apply Z.div_pos; lia). lia.
Qed.

Definition d_max : Z := 2 ^ 131 * 10 ^ 67 + 1.
Lemma guard_small : forall D t, 0 < D <= d_max -> -67 <= t <= 41 -> guard_ok (fst (read_dec D t)) (snd (read_dec D t)) = true.
Proof.
  intros D t HD Ht. unfold read_dec. destruct (strip_tz_inv 400 D t ltac:(lia)) as [A [B C]]. cbv zeta in A, B, C.
  destruct (strip_tz D t 400) as [D1 t1]. cbn [fst snd] in A, B, C.
  unfold guard_ok. destruct (0 <=? t1) eqn:Et; cbn [fst snd].
  - apply Z.leb_le in Et.
    assert (Bd : 0 < D1 * 10 ^ t1 <= d_max * 10 ^ 41).
    { assert (0 < 10 ^ t1) by (apply Z.pow_pos_nonneg; lia). split; [nia|].
      destruct (Z_lt_le_dec t 0) as [Tn|Tp].
      - (* D1 * 10^t1 * 10^(-t) = D *)
        assert (E : D1 * 10 ^ t1 * 10 ^ (- t) = D) by (rewrite <- Z.mul_assoc, <- Z.pow_add_r by lia; replace (t1 + - t) with (t1 - t) by lia; exact C).
        assert (0 < 10 ^ (- t)) by (apply Z.pow_pos_nonneg; lia).
        assert (0 < 10 ^ 41) by reflexivity. nia.
      - assert (E : D1 * 10 ^ t1 = D * 10 ^ t).
        { rewrite <- C. rewrite <- Z.mul_assoc, <- Z.pow_add_r by lia. do 2 f_equal. lia. }
        rewrite E. assert (10 ^ t <= 10 ^ 41) by (apply Z.pow_le_mono_r; lia). assert (0 < 10 ^ t) by (apply Z.pow_pos_nonneg; lia). nia. }
    pose proof (ndigits_mono _ _ Bd) as [N1 N2].
    assert (Nc : ndigits (d_max * 10 ^ 41) <= 200) by (vm_compute; discriminate).
    apply andb_true_iff. split; apply negb_true_iff; [apply Z.ltb_ge | apply Z.ltb_ge]; lia.
  - apply Z.leb_gt in Et.
    pose proof (ndigits_mono D1 d_max ltac:(lia)) as [N1 N2].
    assert (Nc : ndigits d_max <= 200) by (vm_compute; discriminate).
    apply andb_true_iff. split; apply negb_true_iff; [apply Z.ltb_ge | apply Z.ltb_ge]; lia.
Qed.

(* the digits of a value between 2^-150 and 2^131 are within those bounds *)
Lemma shortest_small : forall f m e D t, 0 < m -> -150 <= Z.log2 m + e <= 130 ->
  let n := fst (rat_of m e) in let d := snd (rat_of m e) in
  shortest 20 f (FFin false m e) n d (flog10 n d) 1 = (D, t) -> D <> 0 -> D <= d_max /\ -67 <= t <= 41.
Proof.
  intros f m e D t Hm HL n d H HD.
  destruct (rat_of_pos m e Hm) as [Pn Pd]. fold n d in Pn, Pd.
  pose proof (rat_of_log2 m e Hm) as EL. fold n d in EL.
  destruct (shortest_shape _ _ _ _ _ _ _ _ _ H HD) as [k' [Hk [Et HDle]]].
  pose proof (flog10_range n d) as FR. cbv zeta in FR. rewrite EL in FR.
  assert (E1 : -46 <= est10 (Z.log2 m + e) <= 39).
  { unfold est10. split.
    - apply Z.div_le_lower_bound; lia.
    - assert ((Z.log2 m + e) * 30103 / 100000 < 40) by (apply Z.div_lt_upper_bound; lia). lia. }
  assert (Tr : -67 <= t <= 41) by (cbn in Hk; lia).
  split; [|exact Tr].
  (* D - 1 <= n * V / (d * U) <= 2^131 * 10^67 *)
  unfold digit_at in HDle.
  pose proof (up_pos 10 t ltac:(lia)) as PU. pose proof (dn_pos 10 t ltac:(lia)) as PV.
  assert (V67 : dn 10 t <= 10 ^ 67) by (unfold dn; apply Z.pow_le_mono_r; lia).
  destruct (Z.log2_spec n Pn) as [_ N2]. destruct (Z.log2_spec d Pd) as [D1 _].
  pose proof (Z.log2_nonneg n). pose proof (Z.log2_nonneg d).
  assert (N3 : n < 2 ^ 131 * d).
  { assert (2 ^ Z.succ (Z.log2 n) <= 2 ^ (131 + Z.log2 d)) by (apply Z.pow_le_mono_r; lia).
    rewrite Z.pow_add_r in H2 by lia. assert (0 < 2 ^ 131) by reflexivity. nia. }
  set (U := up 10 t) in *. set (V := dn 10 t) in *.
  assert (Q : n * V / (d * U) <= 2 ^ 131 * 10 ^ 67).
  { apply Z.div_le_upper_bound; [nia|]. assert (0 < 2 ^ 131) by reflexivity. assert (0 < 10 ^ 67) by reflexivity.
    assert (n * V <= 2 ^ 131 * d * V) by (apply Z.mul_le_mono_nonneg_r; lia).
    assert (2 ^ 131 * d * V <= 2 ^ 131 * d * 10 ^ 67) by (apply Z.mul_le_mono_nonneg_l; nia).
    assert (2 ^ 131 * d * 10 ^ 67 <= d * U * (2 ^ 131 * 10 ^ 67)).
    { replace (d * U * (2 ^ 131 * 10 ^ 67)) with (2 ^ 131 * d * 10 ^ 67 * U) by ring.
      assert (0 < 2 ^ 131 * d * 10 ^ 67) by nia. nia. }
    lia. }
  unfold d_max. lia.
Qed.

(* ---------- the unconditional round trip ---------- *)
Theorem float_text_roundtrip : forall f neg m e ks, 2 <= prec f -> canonical f m e ->
  -1100 <= emin f -> emax f <= 1100 -> prec f <= 64 -> 1 <= ks <= 20 -> 2 * 2 ^ prec f <= 10 ^ (ks - 1) ->
  -150 <= Z.log2 m + e <= 130 ->
  exists D' t', parse_dec (print_shortest f (FFin neg m e)) = Some (DNum neg D' t') /\ dec_to_f f (DNum neg D' t') = FFin neg m e.
Proof.
  intros f neg m e ks Hp Hc H1 H2 H3 Hks HK HL.
  assert (Hm : 0 < m) by (destruct Hc as [[? ?] _]; assumption).
  pose proof (digits_found f m e ks Hp Hc H1 H2 H3 Hks HK) as DF. cbv zeta in DF.
  unfold print_shortest. rewrite (surjective_pairing (rat_of m e)).
  set (n := fst (rat_of m e)) in *. set (d := snd (rat_of m e)) in *.
  destruct (shortest 20 f (FFin false m e) n d (flog10 n d) 1) as [D t] eqn:Es. cbn [fst] in DF.
  destruct (rat_of_pos m e Hm) as [Pn Pd]. fold n d in Pn, Pd.
  pose proof (shortest_pos _ _ _ _ _ _ _ _ _ Pn Pd Es DF) as PD.
  pose proof (shortest_rounds_back 20 f m e (flog10 n d) 1 D t ltac:(lia) Hc Es DF) as RB.
  destruct (shortest_small f m e D t Hm HL Es DF) as [B1 B2].
  destruct (fmt_plain_reads f neg D t ltac:(lia) PD) as [A [_ B]].
  exists (fst (read_dec D t)), (snd (read_dec D t)). split; [exact A|].
  rewrite (B (guard_small D t ltac:(lia) B2)), RB. reflexivity.
Qed.

(* every finite f32 value: the text the writer produces parses back to the value (types::Float, and types::UFloat for the
   non-negative ones) *)
Definition valid32 (x : fval) : Prop :=
  match x with FFin _ m e => canonical b32 m e | FZero _ => True | _ => False end.
Theorem f32_text_roundtrip : forall x, valid32 x -> parse_float (print_f32 x) = Ok x.
Proof.
  intros [n| | |neg m e] H; try contradiction.
  - destruct n; reflexivity.
  - cbn in H. assert (Hc := H). destruct Hc as [[Hm1 Hm2] [[He1 He2] _]].
    change (prec b32) with 24 in *. change (emin b32) with (-149) in *. change (emax b32) with 104 in *.
    assert (L : -150 <= Z.log2 m + e <= 130).
    { pose proof (Z.log2_nonneg m). assert (Z.log2 m < 24) by (apply Z.log2_lt_pow2; lia). lia. }
    destruct (float_text_roundtrip b32 neg m e 9 ltac:(cbn; lia) H ltac:(cbn; lia) ltac:(cbn; lia) ltac:(cbn; lia) ltac:(lia) ltac:(cbn; lia) L)
      as [D' [t' [A B]]].
    unfold parse_float, parse_f32, print_f32. rewrite A. cbn [bind]. rewrite B. reflexivity.
Qed.
Theorem uf32_text_roundtrip : forall x, valid32 x -> f_is_neg x = false -> parse_ufloat (print_f32 x) = Ok x.
Proof.
  intros x H Hn. pose proof (f32_text_roundtrip x H) as R. unfold parse_float in R. unfold parse_ufloat.
  destruct (parse_f32 (print_f32 x)) as [y| |]; cbn [bind] in *; try discriminate.
  destruct (f_is_finite y) eqn:F; try discriminate. inversion R. subst y. rewrite Hn. reflexivity.
Qed.

(* every Duration below 2^20 seconds: the text written for it parses back to the same nanosecond count *)
Theorem duration_text_roundtrip : forall ns : N, (ns < 1048576 * 1000000000)%N -> parse_duration (print_duration ns) = Ok ns.
Proof.
  intros ns H. unfold print_duration, parse_duration.
  destruct (N.eq_dec ns 0) as [-> | NZ]; [reflexivity|].
  destruct (secs_f64_fin (Z.of_N ns) ltac:(lia)) as [M [k [E [HM Hk]]]]. rewrite E.
  assert (C : canonical b64 M (- k)).
  { unfold canonical. change (prec b64) with 53. change (emin b64) with (-1074). change (emax b64) with 971.
    change (2 ^ 53) with 9007199254740992. change (2 ^ (53 - 1)) with 4503599627370496. lia. }
  assert (L : -150 <= Z.log2 M + - k <= 130).
  { assert (52 <= Z.log2 M) by (apply Z.log2_le_pow2; lia). assert (Z.log2 M < 53) by (apply Z.log2_lt_pow2; lia). lia. }
  destruct (float_text_roundtrip b64 false M (- k) 18 ltac:(cbn; lia) C ltac:(cbn; lia) ltac:(cbn; lia) ltac:(cbn; lia) ltac:(lia) ltac:(cbn; lia) L)
    as [D' [t' [A B]]].
  rewrite A, B, <- E. rewrite dur_f64_dur by lia. f_equal. lia.
Qed.
