(* FloatFixed3.v — FRAME-RATE: the {:.3} writer and the float reader give the value back for every f32 that is the nearest to a
   number with at most three decimals below 8192 (the values a FRAME-RATE attribute written per RFC 8216 parses to). *)
From hls Require Import Base Float Types.
From hls.Proofs Require Import FloatRound FloatNear FloatDigits DurationText FloatText FloatGuard FloatAll AttrText TagText.
From Coq Require Import Lia ZifyN ZifyBool.
Local Open Scope Z_scope.

(* shape and accuracy of a binary32 rounding in the normal range below 2^23 *)
Lemma rnd_near_fin32 : forall n d lo hi, 0 < n -> 0 < d -> ge2 n d lo -> lt2 n d hi -> -126 <= lo -> hi <= 23 ->
  exists M k, rnd_pos b32 false n d = FFin false M (- k) /\ 23 - hi <= k <= 23 - lo /\
    8388608 <= M < 16777216 /\ - d <= 2 * n * 2 ^ k - 2 * M * d <= d.
Proof.
  intros n d lo hi Hn Hd Hlo Hhi Hl Hh.
  pose proof (normal_range b32 n d lo hi ltac:(reflexivity) Hn Hd Hlo Hhi ltac:(cbn; lia)) as [He HM].
  cbv zeta in He. change (prec b32) with 24 in *.
  pose proof (m_of_near b32 n d Hn Hd) as Near. cbv zeta in Near.
  rewrite rnd_pos_unfold. set (e := e_of b32 n d) in *. set (M := m_of b32 n d) in *.
  assert (Ee : e < 0) by lia.
  destruct (scaled_neg n d e Ee) as [_ [_ Dn]]. rewrite Dn in Near.
  unfold sc_num in Near. replace (e <? 0) with true in Near by (symmetry; apply Z.ltb_lt; lia).
  change (2 ^ (24 - 1)) with 8388608 in HM. change (2 ^ 24) with 16777216 in HM.
  unfold finish_round. change (prec b32) with 24. change (emax b32) with 104.
  replace (M =? 0) with false by (symmetry; apply Z.eqb_neq; lia).
  change (2 ^ 24) with 16777216. change (2 ^ (24 - 1)) with 8388608.
  destruct (M =? 16777216) eqn:EM.
  - apply Z.eqb_eq in EM.
    replace (104 <? e + 1) with false by (symmetry; apply Z.ltb_ge; lia).
    exists 8388608, (- e - 1). split; [f_equal; lia|]. split; [lia|]. split; [lia|].
    assert (Pk : 2 ^ (- e) = 2 * 2 ^ (- e - 1)).
    { replace (- e) with (1 + (- e - 1)) at 1 by lia. rewrite pow2_split by lia. reflexivity. }
    rewrite EM in Near. rewrite Pk in Near. lia.
  - apply Z.eqb_neq in EM.
    replace (104 <? e) with false by (symmetry; apply Z.ltb_ge; lia).
    exists M, (- e). split; [f_equal; lia|]. split; [lia|]. split; [lia|]. lia.
Qed.

(* three digits *)
Definition pad3_ok (v : Z) : bool :=
  forallb is_digit (pad3 v) && (Z.of_nat (List.length (pad3 v)) =? 3) && (zval (pad3 v) 0 =? v).
Lemma pad3_sweep : forallb pad3_ok (map Z.of_nat (seq 0 1000)) = true.
Proof. vm_compute. reflexivity. Qed.
Lemma pad3_spec : forall v, 0 <= v < 1000 -> forallb is_digit (pad3 v) = true /\ List.length (pad3 v) = 3%nat /\ zval (pad3 v) 0 = v.
Proof.
  intros v H. pose proof pad3_sweep as S. rewrite forallb_forall in S.
  assert (I : In v (map Z.of_nat (seq 0 1000))) by (apply in_map_iff; exists (Z.to_nat v); split; [lia | apply in_seq; lia]).
  specialize (S v I). unfold pad3_ok in S. apply andb_true_iff in S. destruct S as [S S3]. apply andb_true_iff in S. destruct S as [S1 S2].
  split; [exact S1|]. split; lia.
Qed.

Theorem fixed3_roundtrip : forall V, 0 < V < 8192000 ->
  let x := dec_to_f b32 (DNum false V (-3)) in
  parse_ufloat (print_fixed3 x) = Ok x /\ forallb fchar (print_fixed3 x) = true /\ print_fixed3 x <> [].
Proof.
  intros V HV x.
  (* the value *)
  assert (L : 0 <= Z.log2 V < 24).
  { split; [apply Z.log2_nonneg|]. apply Z.log2_lt_pow2; [lia|]. change (2 ^ 24) with 16777216. lia. }
  assert (G : 1 <= ndigits V <= 8).
  { unfold ndigits. pose proof (Z.div_le_mono (Z.log2 V * 30103) (23 * 30103) 100000 ltac:(lia) ltac:(lia)) as U.
    pose proof (Z.div_pos (Z.log2 V * 30103) 100000 ltac:(lia) ltac:(lia)). change (23 * 30103 / 100000) with 6 in U. lia. }
  assert (Ex : x = rnd_pos b32 false V 1000).
  { unfold x, dec_to_f. replace (V =? 0) with false by (symmetry; apply Z.eqb_neq; lia). cbv zeta.
    replace (400 <? ndigits V + -3) with false by (symmetry; apply Z.ltb_ge; lia).
    replace (ndigits V + -3 <? -400) with false by (symmetry; apply Z.ltb_ge; lia). reflexivity. }
  destruct (rnd_near_fin32 V 1000 (-10) 13 ltac:(lia) ltac:(lia)) as [M [k [E [Hk [HM Near]]]]]; try lia.
  { unfold ge2. cbn. lia. } { unfold lt2. cbn. lia. }
  rewrite Ex, E. unfold print_fixed3.
  assert (Ro : rat_of M (- k) = (M, 2 ^ k)).
  { unfold rat_of. replace (- k <? 0) with true by (symmetry; apply Z.ltb_lt; lia). f_equal. f_equal. lia. }
  rewrite Ro.
  assert (P10 : 2 ^ 10 <= 2 ^ k) by (apply pow2_mono; lia). change (2 ^ 10) with 1024 in P10. set (P := 2 ^ k) in *.
  pose proof (Z.div_mod (M * 1000) P ltac:(lia)) as DM. pose proof (Z.mod_pos_bound (M * 1000) P ltac:(lia)) as MB.
  assert (Ev : rne (M * 1000 / P) ((M * 1000) mod P) P = V).
  { apply rne_unique; [lia | exact MB |]. rewrite (Z.mul_comm (M * 1000 / P) P), <- DM. lia. }
  cbv zeta. rewrite Ev.
  pose proof (Z.div_mod V 1000 ltac:(lia)) as DV. pose proof (Z.mod_pos_bound V 1000 ltac:(lia)) as MV.
  destruct (pad3_spec (V mod 1000) MV) as [Pd [Pl Pz]].
  assert (Ip : 0 <= V / 1000) by (apply Z.div_pos; lia).
  (* the integer part as a digit list *)
  assert (Hip : exists c a, (if V / 1000 =? 0 then [48%N] else digits (V / 1000)) = c :: a /\ forallb is_digit (c :: a) = true
                            /\ zval (c :: a) 0 = V / 1000).
  { destruct (V / 1000 =? 0) eqn:E0.
    - apply Z.eqb_eq in E0. exists 48%N, []. rewrite E0. repeat split.
    - apply Z.eqb_neq in E0. destruct (digits_spec (V / 1000) ltac:(lia)) as [A [B C]].
      destruct (digits (V / 1000)) as [|c a]; [contradiction|]. exists c, a. repeat split; assumption. }
  destruct Hip as [c [a [Eip [Hd Hz]]]].
  rewrite Eip.
  assert (Hc : is_digit c = true) by (cbn [forallb] in Hd; apply andb_true_iff in Hd; tauto).
  cbn [app].
  split; [|split].
  - assert (PD : parse_dec (c :: a ++ 46%N :: pad3 (V mod 1000)) = Some (DNum false V (-3))).
    { pose proof (parse_dec_signed false c (a ++ 46%N :: pad3 (V mod 1000)) Hc) as PS. cbn [app] in PS.
      etransitivity; [exact PS|].
      pose proof (body_plain false c a (pad3 (V mod 1000)) Hd Pd) as BP. cbn [app] in BP.
      etransitivity; [exact BP|]. rewrite Pl.
      pose proof (zval_app (c :: a) (pad3 (V mod 1000)) 0) as ZA. cbn [app] in ZA.
      rewrite (zval_shift (pad3 (V mod 1000))), Pl, Pz, Hz in ZA.
      replace (V / 1000 * 10 ^ Z.of_nat 3 + V mod 1000) with V in ZA by (change (10 ^ Z.of_nat 3) with 1000; lia).
      f_equal. f_equal. exact ZA. }
    unfold parse_ufloat, parse_f32.
    match goal with |- context [parse_dec ?t] => replace (parse_dec t) with (Some (DNum false V (-3))) by (symmetry; exact PD) end.
    fold x. cbn [bind]. rewrite Ex, E. reflexivity.
  - change (c :: a ++ 46%N :: pad3 (V mod 1000)) with ((c :: a) ++ 46%N :: pad3 (V mod 1000)).
    rewrite forallb_app. apply andb_true_iff. split; [apply digit_fchar; exact Hd|].
    cbn [forallb]. apply andb_true_iff. split; [reflexivity | apply digit_fchar; exact Pd].
  - discriminate.
Qed.

Theorem ufloat_rt_3dec : forall V : N, (V < 8192000)%N -> ufloat_rt (dec_to_f b32 (DNum false (Z.of_N V) (-3))) = true.
Proof.
  intros V H. destruct (N.eq_dec V 0) as [-> | NZ]; [reflexivity|].
  destruct (fixed3_roundtrip (Z.of_N V) ltac:(lia)) as [A [B C]]. cbv zeta in A, B, C.
  set (x := dec_to_f b32 (DNum false (Z.of_N V) (-3))) in *.
  unfold ufloat_rt. rewrite A, (fchar_text_plain _ B).
  assert (Vx : valid32 x).
  { apply (parse_float_valid (print_fixed3 x)). unfold parse_float. unfold parse_ufloat in A.
    destruct (parse_f32 (print_fixed3 x)) as [y| |]; cbn [bind] in *; try discriminate.
    destruct (f_is_finite y && negb (f_is_neg y)) eqn:F; [|discriminate]. apply andb_true_iff in F. destruct F as [F _]. rewrite F. exact A. }
  rewrite (fval_eqb_refl x Vx). destruct (print_fixed3 x); [contradiction | reflexivity].
Qed.
