(* MasterOrder.v — the master parser collects every tag into its list, in source order within
   its kind; the media parser keeps unknown tags in source order. *)
From hls Require Import Base Float Lex Kinds Types Tags Line Keys Media Master.
From hls.Generated Require Import Tables.
From hls.Proofs Require Import EqFacts Build Parse.
Open Scope N_scope.

Definition medias (ls : list line) : list Media := flat_map (fun l => match l with LTag (TMedia m) => [m] | _ => [] end) ls.
Definition variants (ls : list line) : list Variant := flat_map (fun l => match l with LTag (TVariant v) => [v] | _ => [] end) ls.
Definition sdatas (ls : list line) : list SessionData := flat_map (fun l => match l with LTag (TSessionData d) => [d] | _ => [] end) ls.
Definition skeys (ls : list line) : list Key := flat_map (fun l => match l with LTag (TSessionKey k) => [k] | _ => [] end) ls.
Definition unknowns (ls : list line) : list str := flat_map (fun l => match l with LTag (TUnknown u) => [u] | _ => [] end) ls.

Lemma mstep_lists : forall s l s', mstep s l = Ok s' ->
  rev (ms_media s') = rev (ms_media s) ++ medias [l] /\ rev (ms_variants s') = rev (ms_variants s) ++ variants [l]
  /\ rev (ms_sdata s') = rev (ms_sdata s) ++ sdatas [l] /\ rev (ms_skeys s') = rev (ms_skeys s) ++ skeys [l]
  /\ rev (ms_unknown s') = rev (ms_unknown s) ++ unknowns [l].
Proof.
  intros s l s' H. destruct l as [t| |u]; unfold mstep in H; try discriminate.
  - destruct (in_kinds (kind_of t) master_rejects); [discriminate|].
    destruct t; try discriminate; inversion H; subst; simpl; rewrite ?app_nil_r; repeat split; reflexivity.
  - inversion H; subst. simpl. rewrite !app_nil_r. repeat split.
Qed.

Lemma mrun_lines_lists : forall ls s s', mrun_lines s (map Ok ls) = Ok s' ->
  rev (ms_media s') = rev (ms_media s) ++ medias ls /\ rev (ms_variants s') = rev (ms_variants s) ++ variants ls
  /\ rev (ms_sdata s') = rev (ms_sdata s) ++ sdatas ls /\ rev (ms_skeys s') = rev (ms_skeys s) ++ skeys ls
  /\ rev (ms_unknown s') = rev (ms_unknown s) ++ unknowns ls.
Proof.
  induction ls as [|l ls IH]; simpl; intros s s' H.
  - inversion H; subst. rewrite !app_nil_r. repeat split.
  - apply bind_ok in H. destruct H as [s1 [Hs H]].
    destruct (mstep_lists _ _ _ Hs) as [A1 [A2 [A3 [A4 A5]]]].
    destruct (IH _ _ H) as [B1 [B2 [B3 [B4 B5]]]].
    unfold medias, variants, sdatas, skeys, unknowns in *. simpl in *. rewrite app_nil_r in *.
    rewrite B1, B2, B3, B4, B5, A1, A2, A3, A4, A5, <- !app_assoc. repeat split.
Qed.

Theorem master_source_order : forall ls s, 
  mrun_lines {| ms_indep := false; ms_start := None; ms_media := []; ms_variants := []; ms_sdata := [];
                ms_skeys := []; ms_unknown := [] |} (map Ok ls) = Ok s ->
  rev (ms_media s) = medias ls /\ rev (ms_variants s) = variants ls /\ rev (ms_sdata s) = sdatas ls
  /\ rev (ms_skeys s) = skeys ls /\ rev (ms_unknown s) = unknowns ls.
Proof. intros ls s H. apply mrun_lines_lists in H. simpl in H. exact H. Qed.

Lemma step_unknown : forall s l s', step s l = Ok s' -> rev (ps_unknown s') = rev (ps_unknown s) ++ unknowns [l].
Proof.
  intros s l s' H. destruct l as [t| |u]; unfold step in H.
  - destruct (in_kinds (kind_of t) media_rejects); [discriminate|].
    destruct t; cbn [step_tag set_seg set_b] in H;
      repeat match type of H with context [if ?c then _ else _] => destruct c end;
      try discriminate; inversion H; subst; simpl; rewrite ?app_nil_r; reflexivity.
  - inversion H; subst. simpl. rewrite app_nil_r. reflexivity.
  - destruct (sa_inf (ps_seg s)); cbn [of_opt bind] in H; [|discriminate].
    inversion H; subst. simpl. rewrite app_nil_r. reflexivity.
Qed.
Theorem media_unknown_order : forall ls s s', run_lines s (map Ok ls) = Ok s' ->
  rev (ps_unknown s') = rev (ps_unknown s) ++ unknowns ls.
Proof.
  induction ls as [|l ls IH]; simpl; intros s s' H.
  - inversion H; subst. rewrite app_nil_r. reflexivity.
  - apply bind_ok in H. destruct H as [s1 [Hs H]].
    rewrite (IH _ _ H), (step_unknown _ _ _ Hs). unfold unknowns. simpl. rewrite app_nil_r, <- app_assoc. reflexivity.
Qed.
