(* C03Items.v — the items the media writer "means" (MediaText.media_items), run through the parser
   state machine and build(): the segments come back with the same content and numbers, and keys
   that are the reader's view of the writer's key events. *)
From hls Require Import Base Float Lex Kinds Types Tags Line Keys Media Master.
From hls.Generated Require Import Tables.
From hls.Spec Require Import KeySpec.
From hls.Proofs Require Import EqFacts KeysProof C06 Build Parse MediaProps C11 C03 C12 TextLines AttrText TagText
  TagTextSegment TagTextDateRange MasterText MediaText.
From Coq Require Import Lia ZifyN ZifyNat.
Open Scope N_scope.

(* ---------- the parser over the items of the segments ---------- *)
Definition raw_segment (s : Segment) (cur : list xkey) : Segment :=
  {| sg_number := 0; sg_explicit := false; sg_keys := cur;
     sg_map := match sg_map s with
               | Some m => Some {| map_uri := map_uri m; map_range := map_range m; map_keys := cur |}
               | None => None
               end;
     sg_range := sg_range s; sg_daterange := sg_daterange s; sg_disc := sg_disc s; sg_pdt := sg_pdt s;
     sg_inf := sg_inf s; sg_uri := sg_uri s |}.
Definition mkst (a : seg_acc) (partial hasdisc : bool) (unk : list str) (keys : list xkey) (segs : list Segment) (b : mbuilder) : pstate :=
  {| ps_seg := a; ps_partial := partial; ps_hasdisc := hasdisc; ps_unknown := unk; ps_keys := keys; ps_segs := segs; ps_b := b |}.

Lemma key_not_rejected : in_kinds K_ExtXKey media_rejects = false.
Proof. reflexivity. Qed.
Lemma run_key_events : forall ev a pa hd unk keys segs b tail,
  exists pa', run_lines (mkst a pa hd unk keys segs b) (map Ok (map (fun k => LTag (TKey k)) ev) ++ tail)
  = run_lines (mkst a pa' hd unk (keys_from keys ev) segs b) tail.
Proof.
  induction ev as [|k ev IH]; intros a pa hd unk keys segs b tail.
  - exists pa. reflexivity.
  - destruct (IH a true hd unk (key_step keys k) segs b tail) as [pa' E]. exists pa'.
    cbn [map app run_lines bind step kind_of]. rewrite key_not_rejected. cbn [step_tag mkst ps_seg ps_partial ps_hasdisc
      ps_unknown ps_keys ps_segs ps_b bind].
    exact E.
Qed.

Lemma run_segment_items : forall s pa hd unk keys segs b tail,
  run_lines (mkst seg_empty pa hd unk keys segs b) (map Ok (segment_items s) ++ tail)
  = run_lines (mkst seg_empty false (hd || sg_disc s) unk keys (raw_segment s keys :: segs) b) tail.
Proof.
  intros s pa hd unk keys segs b tail. unfold segment_items, raw_segment.
  destruct (sg_map s) as [m|], (sg_range s) as [r|], (sg_daterange s) as [d|], (sg_disc s), (sg_pdt s) as [p|];
    cbn [oitem app map run_lines bind step kind_of in_kinds existsb kind_eqb media_rejects orb step_tag set_seg mkst
         ps_seg ps_partial ps_hasdisc ps_unknown ps_keys ps_segs ps_b seg_empty sa_map sa_range sa_daterange sa_disc
         sa_pdt sa_inf of_opt bare_map map_uri map_range];
    rewrite ?orb_true_r, ?orb_false_r; reflexivity.
Qed.

Fixpoint raw_segments (avail cur : list xkey) (segs : list Segment) : list Segment :=
  match segs with
  | [] => []
  | s :: r => let '(a, ev) := segment_key_events avail (sg_keys s) in
              let c := keys_from cur ev in raw_segment s c :: raw_segments a c r
  end.
Fixpoint final_keys (avail cur : list xkey) (segs : list Segment) : list xkey :=
  match segs with
  | [] => cur
  | s :: r => let '(a, ev) := segment_key_events avail (sg_keys s) in final_keys a (keys_from cur ev) r
  end.
Lemma run_segments_items : forall segs avail pa hd unk keys acc b tail,
  run_lines (mkst seg_empty pa hd unk keys acc b) (map Ok (segments_items avail segs) ++ tail)
  = run_lines (mkst seg_empty (match segs with [] => pa | _ => false end) (hd || existsb sg_disc segs) unk
                    (final_keys avail keys segs) (rev (raw_segments avail keys segs) ++ acc) b) tail.
Proof.
  induction segs as [|s r IH]; intros avail pa hd unk keys acc b tail.
  - cbn [segments_items map app existsb final_keys raw_segments rev]. rewrite orb_false_r. reflexivity.
  - cbn [segments_items raw_segments final_keys existsb].
    destruct (segment_key_events avail (sg_keys s)) as [a ev].
    rewrite !map_app, <- !app_assoc.
    destruct (run_key_events ev seg_empty pa hd unk keys acc b
               (map Ok (segment_items s) ++ map Ok (segments_items a r) ++ tail)) as [pa' E].
    rewrite E. rewrite run_segment_items. rewrite IH.
    cbn [rev]. rewrite <- app_assoc. cbn [app]. rewrite orb_assoc.
    destruct r; reflexivity.
Qed.

(* ---------- header, unknown tags, ENDLIST ---------- *)
Definition header_builder (p : MediaPlaylist) (endl : option bool) : mbuilder :=
  {| b_target := Some (mp_target p / 1000000000 * 1000000000);
     b_mseq := if mp_mseq p =? 0 then None else Some (mp_mseq p);
     b_dseq := if mp_dseq p =? 0 then None else Some (mp_dseq p);
     b_ptype := match mp_ptype p with Some t => Some (Some t) | None => None end;
     b_iframes := if mp_iframes p then Some true else None;
     b_indep := if mp_indep p then Some true else None;
     b_start := match mp_start p with Some s => Some (Some s) | None => None end;
     b_endlist := endl; b_segments := None; b_excess := None; b_unknown := None |}.
Definition mb t ms ds pt ifr ind st en sg ex un : mbuilder :=
  {| b_target := t; b_mseq := ms; b_dseq := ds; b_ptype := pt; b_iframes := ifr; b_indep := ind; b_start := st;
     b_endlist := en; b_segments := sg; b_excess := ex; b_unknown := un |}.
Definition hst (b : mbuilder) : pstate := mkst seg_empty false false [] [] [] b.
Section Header.
Variables (t ms ds : option N) (pt : option (option N)) (ifr ind : option bool) (st : option (option Start))
          (en : option bool) (sg : option (list (option Segment))) (ex : option N) (un : option (list str)).
Variable tail : list (res line).
Lemma h_target : forall n,
  run_lines (hst (mb t ms ds pt ifr ind st en sg ex un)) (map Ok [LTag (TTarget n)] ++ tail)
  = run_lines (hst (mb (Some (n * 1000000000)) ms ds pt ifr ind st en sg ex un)) tail.
Proof. reflexivity. Qed.
Lemma h_mseq : forall n,
  run_lines (hst (mb t None ds pt ifr ind st en sg ex un)) (map Ok (if n =? 0 then [] else [LTag (TMediaSeq n)]) ++ tail)
  = run_lines (hst (mb t (if n =? 0 then None else Some n) ds pt ifr ind st en sg ex un)) tail.
Proof. intros n. destruct (n =? 0); reflexivity. Qed.
Lemma h_dseq : forall n,
  run_lines (hst (mb t ms None pt ifr ind st en sg ex un)) (map Ok (if n =? 0 then [] else [LTag (TDiscSeq n)]) ++ tail)
  = run_lines (hst (mb t ms (if n =? 0 then None else Some n) pt ifr ind st en sg ex un)) tail.
Proof. intros n. destruct (n =? 0); reflexivity. Qed.
Lemma h_ptype : forall o,
  run_lines (hst (mb t ms ds None ifr ind st en sg ex un)) (map Ok (oitem o TPlaylistType) ++ tail)
  = run_lines (hst (mb t ms ds (match o with Some x => Some (Some x) | None => None end) ifr ind st en sg ex un)) tail.
Proof. intros [x|]; reflexivity. Qed.
Lemma h_iframes : forall c : bool,
  run_lines (hst (mb t ms ds pt None ind st en sg ex un)) (map Ok (if c then [LTag TIFramesOnly] else []) ++ tail)
  = run_lines (hst (mb t ms ds pt (if c then Some true else None) ind st en sg ex un)) tail.
Proof. intros [|]; reflexivity. Qed.
Lemma h_indep : forall c : bool,
  run_lines (hst (mb t ms ds pt ifr None st en sg ex un)) (map Ok (if c then [LTag TIndep] else []) ++ tail)
  = run_lines (hst (mb t ms ds pt ifr (if c then Some true else None) st en sg ex un)) tail.
Proof. intros [|]; reflexivity. Qed.
Lemma h_start : forall o,
  run_lines (hst (mb t ms ds pt ifr ind None en sg ex un)) (map Ok (oitem o TStart) ++ tail)
  = run_lines (hst (mb t ms ds pt ifr ind (match o with Some x => Some (Some x) | None => None end) en sg ex un)) tail.
Proof. intros [x|]; reflexivity. Qed.
End Header.
Lemma run_header : forall p tail,
  run_lines (init_state mb_default) (map Ok (media_header_items p) ++ tail)
  = run_lines (mkst seg_empty false false [] [] [] (header_builder p None)) tail.
Proof.
  intros p tail. unfold media_header_items.
  change (init_state mb_default) with (hst (mb None None None None None None None None None None None)).
  rewrite !map_app, <- !app_assoc.
  rewrite h_target, h_mseq, h_dseq, h_ptype, h_iframes, h_indep, h_start. reflexivity.
Qed.
Lemma unknown_not_rejected_media : in_kinds K_Unknown media_rejects = false.
Proof. reflexivity. Qed.
Lemma run_unknowns_media : forall us a pa hd unk keys segs b tail,
  run_lines (mkst a pa hd unk keys segs b) (map Ok (map (fun u => LTag (TUnknown u)) us) ++ tail)
  = run_lines (mkst a pa hd (rev us ++ unk) keys segs b) tail.
Proof.
  induction us as [|u us IH]; intros; [reflexivity|].
  cbn [map app run_lines bind step kind_of]. rewrite unknown_not_rejected_media.
  cbn [step_tag mkst ps_seg ps_partial ps_hasdisc ps_unknown ps_keys ps_segs ps_b bind].
  change (run_lines (mkst a pa hd (u :: unk) keys segs b) (map Ok (map (fun u0 => LTag (TUnknown u0)) us) ++ tail)
          = run_lines (mkst a pa hd (rev (u :: us) ++ unk) keys segs b) tail).
  rewrite IH. cbn [rev]. rewrite <- app_assoc. reflexivity.
Qed.

Definition final_builder (p : MediaPlaylist) : mbuilder :=
  let hb := header_builder p (if mp_endlist p then Some true else None) in
  {| b_target := b_target hb; b_mseq := b_mseq hb; b_dseq := b_dseq hb; b_ptype := b_ptype hb;
     b_iframes := b_iframes hb; b_indep := b_indep hb; b_start := b_start hb; b_endlist := b_endlist hb;
     b_segments := Some (map Some (raw_segments [] [] (mp_segs p)));
     b_excess := None; b_unknown := Some (mp_unknown p) |}.
Theorem items_to_build : forall p, parse_items mb_default (map Ok (media_items p)) = build (final_builder p).
Proof.
  intros p. unfold parse_items, media_items. rewrite !map_app.
  rewrite run_header. rewrite run_segments_items. rewrite run_unknowns_media.
  assert (E : run_lines (mkst seg_empty (match mp_segs p with [] => false | _ => false end) (false || existsb sg_disc (mp_segs p))
                           (rev (mp_unknown p) ++ []) (final_keys [] [] (mp_segs p))
                           (rev (raw_segments [] [] (mp_segs p)) ++ []) (header_builder p None))
                (map Ok (if mp_endlist p then [LTag TEndList] else []))
            = Ok (mkst seg_empty false (existsb sg_disc (mp_segs p)) (rev (mp_unknown p)) (final_keys [] [] (mp_segs p))
                       (rev (raw_segments [] [] (mp_segs p))) (header_builder p (if mp_endlist p then Some true else None)))).
  { rewrite !app_nil_r. destruct (mp_segs p); destruct (mp_endlist p); reflexivity. }
  rewrite E. cbn [bind]. unfold finish_media, final_builder, mkst, header_builder.
  cbn [ps_partial ps_b ps_segs ps_unknown b_target b_mseq b_dseq b_ptype b_iframes b_indep b_start b_endlist b_excess].
  rewrite !rev_involutive. reflexivity.
Qed.

Lemma existsb_map_eq : forall A B (f : A -> B) (p : B -> bool) l, existsb p (map f l) = existsb (fun x => p (f x)) l.
Proof. induction l as [|x l IH]; simpl; [reflexivity | rewrite IH; reflexivity]. Qed.
Lemma existsb_ext_eq : forall A (p q : A -> bool) l, (forall x, p x = q x) -> existsb p l = existsb q l.
Proof. intros A p q l H. induction l as [|x l IH]; simpl; [reflexivity | rewrite H, IH; reflexivity]. Qed.

(* ---------- the writer looks at stripped keys only ---------- *)
Definition kstripped (d : Key) : Prop := strip_derived d = d.
Lemma strip_derive : forall n d, strip_derived d = d ->
  match derive_iv n (Some d) with Some d' => strip_derived d' = d | None => False end.
Proof.
  intros n d H. rewrite derive_iv_spec.
  destruct ((k_method d =? m_aes128) && match k_iv d with IvMissing => true | _ => false end
            && match k_format d with None | Some KfIdentity => true | _ => false end) eqn:E.
  - unfold strip_derived. cbn [k_iv k_method k_uri k_format k_versions].
    apply andb_true_iff in E. destruct E as [E _]. apply andb_true_iff in E. destruct E as [_ E].
    destruct d as [m u iv f v]. cbn [k_iv] in E. destruct iv; try discriminate. reflexivity.
  - destruct d as [m u iv f v]. cbn [k_iv k_method k_uri k_format k_versions]. exact H.
Qed.
Lemma derive_same_fmt : forall n d d', derive_iv n (Some d) = Some d' -> k_format d' = k_format d /\ k_method d' = k_method d.
Proof. intros n d d' H. rewrite derive_iv_spec in H. inversion H. split; reflexivity. Qed.
Definition derive_keys (n : N) (raw : list xkey) : list xkey := map (derive_iv n) raw.
Lemma write_key_derive : forall avail n k, stripped k -> write_key avail (derive_iv n k) = write_key avail k.
Proof.
  intros avail n [d|] H; [|reflexivity]. cbn [stripped] in H.
  pose proof (strip_derive n d H) as E. destruct (derive_iv n (Some d)) as [d'|]; [|contradiction].
  cbn [write_key]. rewrite E, H. reflexivity.
Qed.
Lemma write_keys_derive : forall raw avail n, Forall stripped raw -> write_keys avail (derive_keys n raw) = write_keys avail raw.
Proof.
  induction raw as [|k raw IH]; intros avail n H; [reflexivity|]. inversion H; subst.
  cbn [derive_keys map write_keys]. rewrite write_key_derive by assumption.
  destruct (write_key avail k) as [a1 t1]. fold (derive_keys n raw). rewrite IH by assumption. reflexivity.
Qed.
Lemma derive_fmt : forall n k, match derive_iv n k, k with
  | Some a, Some b => fmt_of a = fmt_of b | None, None => True | _, _ => False end.
Proof.
  intros n [d|]; [|exact I]. rewrite derive_iv_spec. unfold fmt_of. reflexivity.
Qed.
Lemma stale_keys_derive : forall raw avail n, stale_keys avail (derive_keys n raw) = stale_keys avail raw.
Proof.
  intros raw avail n. unfold stale_keys, derive_keys. f_equal.
  - rewrite existsb_map_eq. apply existsb_ext_eq. intros [d|]; [rewrite derive_iv_spec|]; reflexivity.
  - apply existsb_ext_eq. intros [o|]; [|reflexivity]. f_equal.
    rewrite existsb_map_eq. apply existsb_ext_eq. intros [d|]; [|reflexivity].
    rewrite derive_iv_spec. unfold same_fmt, fmt_of. reflexivity.
Qed.
Lemma segment_events_derive : forall raw avail n, Forall stripped raw ->
  segment_key_events avail (derive_keys n raw) = segment_key_events avail raw.
Proof.
  intros raw avail n H. unfold segment_key_events. rewrite stale_keys_derive, write_keys_derive by assumption. reflexivity.
Qed.

(* ---------- what build() makes of the raw segments ---------- *)
(* the per-segment raw (stripped) key lists of a playlist value *)
Definition keys_from_raw (segs : list Segment) (raws : list (list xkey)) : Prop :=
  Forall2 (fun s raw => sg_keys s = derive_keys (sg_number s) raw /\ Forall stripped raw) segs raws.

Lemma raw_keys_reparse : forall segs raws avail cur, keys_from_raw segs raws ->
  map sg_keys (raw_segments avail cur segs) = reparse_keys avail cur raws.
Proof.
  induction segs as [|s r IH]; intros raws avail cur H; inversion H as [|? raw ? raws' [Hk Hs] Hr]; subst; [reflexivity|].
  cbn [raw_segments reparse_keys]. rewrite Hk, (segment_events_derive raw avail _ Hs).
  destruct (segment_key_events avail raw) as [a ev]. cbn [map raw_segment sg_keys]. f_equal. apply IH, Hr.
Qed.

Fixpoint numbered_from (n : N) (segs : list Segment) : bool :=
  match segs with
  | [] => true
  | s :: r => (sg_number s =? n) && negb (sg_explicit s) && (n <? two64) && numbered_from (n + 1) r
  end.
Definition ranges_explicit (segs : list Segment) : bool :=
  forallb (fun s => match sg_range s with Some r => is_some (br_start r) | None => true end) segs.

(* the segment build() returns for the raw segment of s whose reader keys are c *)
Definition rebuilt (s : Segment) (c : list xkey) : Segment :=
  {| sg_number := sg_number s; sg_explicit := false; sg_keys := derive_keys (sg_number s) c;
     sg_map := match sg_map s with
               | Some m => Some {| map_uri := map_uri m; map_range := map_range m; map_keys := c |}
               | None => None
               end;
     sg_range := sg_range s; sg_daterange := sg_daterange s; sg_disc := sg_disc s; sg_pdt := sg_pdt s;
     sg_inf := sg_inf s; sg_uri := sg_uri s |}.
Fixpoint rebuilt_segments (avail cur : list xkey) (segs : list Segment) : list Segment :=
  match segs with
  | [] => []
  | s :: r => let '(a, ev) := segment_key_events avail (sg_keys s) in
              let c := keys_from cur ev in rebuilt s c :: rebuilt_segments a c r
  end.
Lemma build_loop_raw : forall segs avail cur i mseq prev,
  numbered_from (i + mseq) segs = true -> ranges_explicit segs = true ->
  build_loop (map Some (raw_segments avail cur segs)) i mseq prev = Ok (map Some (rebuilt_segments avail cur segs)).
Proof.
  induction segs as [|s r IH]; intros avail cur i mseq prev Hn Hr; [reflexivity|].
  cbn [numbered_from] in Hn. apply andb_true_iff in Hn. destruct Hn as [Hn Hrest].
  apply andb_true_iff in Hn. destruct Hn as [Hn Hlt]. apply andb_true_iff in Hn. destruct Hn as [Hnum Hex].
  apply N.eqb_eq in Hnum.
  cbn [ranges_explicit forallb] in Hr. apply andb_true_iff in Hr. destruct Hr as [Hr1 Hr2].
  cbn [raw_segments rebuilt_segments]. destruct (segment_key_events avail (sg_keys s)) as [a ev].
  cbn [map build_loop raw_segment sg_explicit sg_number sg_keys sg_range sg_map sg_daterange sg_disc sg_pdt sg_inf sg_uri].
  rewrite Hlt. cbn [bind].
  assert (Hrg : match sg_range s with Some r0 => rmap Some (complete_range r0 prev) | None => Ok None end = Ok (sg_range s)).
  { destruct (sg_range s) as [rg|]; [|reflexivity]. unfold complete_range. destruct (br_start rg); [reflexivity | discriminate]. }
  rewrite Hrg. cbn [bind].
  replace (i + 1 + mseq) with (i + mseq + 1) in IH by lia.
  rewrite (IH a (keys_from cur ev) (i + 1) mseq _) by (try assumption; replace (i + 1 + mseq) with (i + mseq + 1) by lia; assumption).
  cbn [bind]. unfold rebuilt, derive_keys. rewrite Hnum. reflexivity.
Qed.

(* ---------- validation of the re-read segments ---------- *)
Lemma ranges_ok_explicit : forall segs lu, ranges_explicit segs = true -> ranges_ok segs lu = true.
Proof.
  induction segs as [|s r IH]; intros lu H; [reflexivity|]. cbn [ranges_explicit forallb] in H.
  apply andb_true_iff in H. destruct H as [H1 H2]. cbn [ranges_ok].
  destruct (sg_range s) as [rg|]; [|apply IH, H2]. destruct (br_start rg); [apply IH, H2 | discriminate].
Qed.
Definition content_eq (a b : Segment) : Prop :=
  sg_range a = sg_range b /\ sg_inf a = sg_inf b /\ sg_uri a = sg_uri b /\ sg_daterange a = sg_daterange b
  /\ sg_disc a = sg_disc b /\ sg_pdt a = sg_pdt b.
Lemma raw_content : forall segs avail cur, Forall2 content_eq (raw_segments avail cur segs) segs.
Proof.
  induction segs as [|s r IH]; intros avail cur; [constructor|]. cbn [raw_segments].
  destruct (segment_key_events avail (sg_keys s)) as [a ev]. constructor; [repeat split | apply IH].
Qed.
Lemma content_ranges_explicit : forall a b, Forall2 content_eq a b -> ranges_explicit a = ranges_explicit b.
Proof.
  induction 1 as [|x y a b [H1 _] _ IH]; [reflexivity|]. cbn [ranges_explicit forallb]. rewrite H1. f_equal. exact IH.
Qed.
Lemma content_durations : forall a b t, Forall2 content_eq a b ->
  forallb (fun s => rounded_ns (inf_dur (sg_inf s)) <=? t) a = forallb (fun s => rounded_ns (inf_dur (sg_inf s)) <=? t) b.
Proof.
  induction 1 as [|x y a b [_ [H2 _]] _ IH]; [reflexivity|]. cbn [forallb]. rewrite H2. f_equal. exact IH.
Qed.

Definition seteq {A} (a b : list A) : Prop := forall x, In x a <-> In x b.
Lemma existsb_seteq : forall A (f : A -> bool) a b, seteq a b -> existsb f a = existsb f b.
Proof.
  intros A f a b H. destruct (existsb f a) eqn:Ea; destruct (existsb f b) eqn:Eb; try reflexivity; exfalso.
  - apply existsb_exists in Ea. destruct Ea as [x [Hx Hf]]. assert (existsb f b = true) by (apply existsb_exists; exists x; split; [apply H, Hx | exact Hf]). congruence.
  - apply existsb_exists in Eb. destruct Eb as [x [Hx Hf]]. assert (existsb f a = true) by (apply existsb_exists; exists x; split; [apply H, Hx | exact Hf]). congruence.
Qed.
Lemma forallb_seteq : forall A (f : A -> bool) a b, seteq a b -> forallb f a = forallb f b.
Proof.
  intros A f a b H. destruct (forallb f a) eqn:Ea; destruct (forallb f b) eqn:Eb; try reflexivity; exfalso.
  - rewrite forallb_forall in Ea. assert (forallb f b = true) by (apply forallb_forall; intros x Hx; apply Ea, H, Hx). congruence.
  - rewrite forallb_forall in Eb. assert (forallb f a = true) by (apply forallb_forall; intros x Hx; apply Eb, H, Hx). congruence.
Qed.
Lemma concat_seteq : forall A (a b : list (list A)), Forall2 seteq a b -> seteq (List.concat a) (List.concat b).
Proof.
  induction 1 as [|x y a b Hxy _ IH]; [intros z; tauto|]. intros z. cbn [List.concat]. rewrite !in_app_iff, (Hxy z), (IH z). tauto.
Qed.
Lemma flat_map_concat : forall A B (f : A -> list B) l, flat_map f l = List.concat (map f l).
Proof. induction l as [|x l IH]; [reflexivity|]. cbn [flat_map map List.concat]. rewrite IH. reflexivity. Qed.

Lemma forallb_ext_eq : forall A (p q : A -> bool) l, (forall x, p x = q x) -> forallb p l = forallb q l.
Proof. intros A p q l H. induction l as [|x l IH]; simpl; [reflexivity | rewrite H, IH; reflexivity]. Qed.
Definition is_aes (k : xkey) : bool := match k with Some d => k_method d =? m_aes128 | None => false end.
Lemma is_aes_derive : forall n k, is_aes (derive_iv n k) = is_aes k.
Proof. intros n [d|]; [rewrite derive_iv_spec|]; reflexivity. Qed.
Lemma indep_ok_alt : forall segs, indep_ok segs =
  (if existsb is_aes (List.concat (map sg_keys segs)) then forallb is_aes (List.concat (map sg_keys segs)) else true).
Proof. intros. unfold indep_ok. rewrite flat_map_concat. reflexivity. Qed.
Lemma derive_concat : forall segs raws, keys_from_raw segs raws ->
  existsb is_aes (List.concat (map sg_keys segs)) = existsb is_aes (List.concat raws)
  /\ forallb is_aes (List.concat (map sg_keys segs)) = forallb is_aes (List.concat raws).
Proof.
  induction 1 as [|s raw segs raws [Hk _] _ [IH1 IH2]]; [split; reflexivity|].
  cbn [map List.concat]. rewrite !existsb_app, !forallb_app, IH1, IH2, Hk. unfold derive_keys.
  rewrite existsb_map_eq, forallb_map. split; f_equal.
  - apply existsb_ext_eq. intros k. apply is_aes_derive.
  - apply forallb_ext_eq. intros k. apply is_aes_derive.
Qed.

(* ---------- the theorem ---------- *)
(* what makes a media playlist value "built": what MediaPlaylistBuilder::build establishes *)
Record built_ok (p : MediaPlaylist) (raws : list (list xkey)) : Prop := {
  bo_target : mp_target p mod 1000000000 = 0;
  bo_numbers : numbered_from (mp_mseq p) (mp_segs p) = true;
  bo_ranges : ranges_explicit (mp_segs p) = true;
  bo_durations : forallb (fun s => rounded_ns (inf_dur (sg_inf s)) <=? mp_target p) (mp_segs p) = true;
  bo_indep : mp_indep p = true -> indep_ok (mp_segs p) = true;
  bo_keys : keys_from_raw (mp_segs p) raws;
  bo_chain : chain_ok true raws }.

Definition reread (p : MediaPlaylist) : MediaPlaylist :=
  {| mp_target := mp_target p; mp_mseq := mp_mseq p; mp_dseq := mp_dseq p; mp_ptype := mp_ptype p;
     mp_iframes := mp_iframes p; mp_indep := mp_indep p; mp_start := mp_start p; mp_endlist := mp_endlist p;
     mp_segs := rebuilt_segments [] [] (mp_segs p); mp_excess := 0; mp_unknown := mp_unknown p |}.

Lemma raw_keys_seteq : forall p raws, built_ok p raws ->
  Forall2 seteq (map sg_keys (raw_segments [] [] (mp_segs p))) raws.
Proof.
  intros p raws H. rewrite (raw_keys_reparse _ _ [] [] (bo_keys _ _ H)).
  exact (key_duality raws (bo_chain _ _ H)).
Qed.

Theorem build_final : forall p raws, built_ok p raws -> build (final_builder p) = Ok (reread p).
Proof.
  intros p raws H. unfold build, final_builder, header_builder.
  cbn [b_target b_mseq b_dseq b_ptype b_iframes b_indep b_start b_endlist b_segments b_excess b_unknown].
  assert (Ht : mp_target p / 1000000000 * 1000000000 = mp_target p).
  { pose proof (bo_target _ _ H) as Hm. pose proof (N.div_mod (mp_target p) 1000000000 ltac:(lia)). lia. }
  rewrite Ht.
  pose proof (raw_content (mp_segs p) [] []) as Hc.
  (* validation *)
  assert (Hv : validate_segments
     {| b_target := Some (mp_target p); b_mseq := if mp_mseq p =? 0 then None else Some (mp_mseq p);
        b_dseq := if mp_dseq p =? 0 then None else Some (mp_dseq p);
        b_ptype := match mp_ptype p with Some t => Some (Some t) | None => None end;
        b_iframes := if mp_iframes p then Some true else None; b_indep := if mp_indep p then Some true else None;
        b_start := match mp_start p with Some s => Some (Some s) | None => None end;
        b_endlist := if mp_endlist p then Some true else None;
        b_segments := Some (map Some (raw_segments [] [] (mp_segs p))); b_excess := None; b_unknown := Some (mp_unknown p) |}
     (mp_target p) = true).
  { unfold validate_segments. cbn [b_segments b_indep b_excess]. rewrite present_map_some.
    apply andb_true_iff. split; [apply andb_true_iff; split|].
    - destruct (mp_indep p) eqn:Ei; [|reflexivity].
      rewrite indep_ok_alt.
      pose proof (concat_seteq _ _ _ (raw_keys_seteq p raws H)) as Hs.
      rewrite (existsb_seteq _ is_aes _ _ Hs), (forallb_seteq _ is_aes _ _ Hs).
      destruct (derive_concat _ _ (bo_keys _ _ H)) as [E1 E2]. rewrite <- E1, <- E2.
      rewrite <- indep_ok_alt. apply (bo_indep _ _ H Ei).
    - unfold max_seg_dur. rewrite (content_durations _ _ _ Hc). apply (bo_durations _ _ H).
    - apply ranges_ok_explicit. rewrite (content_ranges_explicit _ _ Hc). apply (bo_ranges _ _ H). }
  rewrite Hv. cbn [of_opt bind].
  assert (Hseq : odef (if mp_mseq p =? 0 then None else Some (mp_mseq p)) 0 = mp_mseq p).
  { destruct (N.eqb_spec (mp_mseq p) 0) as [E|E]; [rewrite E; reflexivity | reflexivity]. }
  rewrite Hseq. rewrite present_map_some.
  assert (Hfirst : match raw_segments [] [] (mp_segs p) with
                   | f :: _ => negb ((sg_number f <? mp_mseq p) && sg_explicit f) | [] => true end = true).
  { destruct (mp_segs p) as [|s r]; [reflexivity|]. cbn [raw_segments].
    destruct (segment_key_events [] (sg_keys s)). cbn [raw_segment sg_explicit]. rewrite andb_false_r. reflexivity. }
  rewrite Hfirst.
  rewrite (build_loop_raw (mp_segs p) [] [] 0 (mp_mseq p) None) by (try apply (bo_numbers _ _ H); apply (bo_ranges _ _ H)).
  cbn [bind].
  assert (Hall : forallb is_some (map Some (rebuilt_segments [] [] (mp_segs p))) = true).
  { rewrite forallb_map. apply forallb_forall. reflexivity. }
  rewrite Hall, present_map_some. unfold reread. f_equal.
  assert (Hd : odef (if mp_dseq p =? 0 then None else Some (mp_dseq p)) 0 = mp_dseq p).
  { destruct (N.eqb_spec (mp_dseq p) 0) as [E|E]; [rewrite E; reflexivity | reflexivity]. }
  rewrite Hd. destruct (mp_ptype p), (mp_iframes p), (mp_indep p), (mp_start p), (mp_endlist p); reflexivity.
Qed.

(* the re-read playlist: same header, same unknown tags, per segment the same content and number,
   and the keys as a set (order: known finding D20) *)
Definition seg_same (a b : Segment) : Prop :=
  sg_number a = sg_number b /\ sg_uri a = sg_uri b /\ sg_inf a = sg_inf b /\ sg_range a = sg_range b
  /\ sg_daterange a = sg_daterange b /\ sg_disc a = sg_disc b /\ sg_pdt a = sg_pdt b
  /\ match sg_map a, sg_map b with
     | Some m, Some m' => map_uri m = map_uri m' /\ map_range m = map_range m'
     | None, None => True
     | _, _ => False
     end
  /\ seteq (sg_keys a) (sg_keys b).
Lemma map_seteq : forall A B (f : A -> B) a b, seteq a b -> seteq (map f a) (map f b).
Proof.
  intros A B f a b H y. rewrite !in_map_iff. split; intros [x [E Hx]]; exists x; (split; [exact E | apply H, Hx]).
Qed.
Lemma rebuilt_same : forall segs raws avail cur, keys_from_raw segs raws ->
  Forall2 seteq (reparse_keys avail cur raws) raws ->
  Forall2 seg_same (rebuilt_segments avail cur segs) segs.
Proof.
  induction segs as [|s r IH]; intros raws avail cur Hk Hd; inversion Hk as [|? raw ? raws' [Hks Hs] Hr]; subst; [constructor|].
  cbn [rebuilt_segments]. cbn [reparse_keys] in Hd. rewrite Hks, (segment_events_derive raw avail _ Hs).
  destruct (segment_key_events avail raw) as [a ev]. inversion Hd as [|? ? ? ? Hc Hd']; subst.
  constructor; [|apply (IH raws' a _ Hr Hd')].
  unfold seg_same, rebuilt. cbn [sg_number sg_uri sg_inf sg_range sg_daterange sg_disc sg_pdt sg_map sg_keys].
  do 7 (split; [reflexivity|]). split.
  - destruct (sg_map s); [split; reflexivity | exact I].
  - rewrite Hks. unfold derive_keys. apply map_seteq, Hc.
Qed.
Theorem reread_same : forall p raws, built_ok p raws ->
  mp_target (reread p) = mp_target p /\ mp_mseq (reread p) = mp_mseq p /\ mp_dseq (reread p) = mp_dseq p
  /\ mp_ptype (reread p) = mp_ptype p /\ mp_iframes (reread p) = mp_iframes p /\ mp_indep (reread p) = mp_indep p
  /\ mp_start (reread p) = mp_start p /\ mp_endlist (reread p) = mp_endlist p /\ mp_unknown (reread p) = mp_unknown p
  /\ Forall2 seg_same (mp_segs (reread p)) (mp_segs p).
Proof.
  intros p raws H. repeat split. unfold reread. cbn [mp_segs].
  apply (rebuilt_same _ raws [] [] (bo_keys _ _ H)). exact (key_duality raws (bo_chain _ _ H)).
Qed.

(* text level: the written text of a well-formed built playlist parses to the re-read playlist *)
Theorem media_text_roundtrip : forall p raws, wf_media p = true -> built_ok p raws ->
  parse_media (print_media p) = Ok (reread p).
Proof.
  intros p raws Hwf Hb. unfold parse_media. rewrite (media_text_items p mb_default Hwf), items_to_build.
  exact (build_final p raws Hb).
Qed.
