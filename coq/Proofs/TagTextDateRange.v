(* TagTextDateRange.v — EXT-X-DATERANGE written and read back. *)
From hls Require Import Base Float Lex Kinds Types Tags Line Keys Media Master.
From hls.Generated Require Import Tables.
From hls.Proofs Require Import EqFacts C16 C12 Lexical Values TextLines AttrText TagText TagTextSegment.
From Coq Require Import Lia ZifyN ZifyNat.
Open Scope N_scope.

(* ---------- client attribute values ---------- *)
Definition wf_value (v : Value) : bool :=
  match v with
  | VString s => clean_quoted s
  | VHex bs => forallb (fun b => b <? 256) bs
  | VFloat x => float_rt x && negb (starts_with s_0x (print_f32 x)) && negb (starts_with s_0X (print_f32 x))
  end.
Lemma parse_dec_quote : forall s, parse_dec (quote s) = None.
Proof. intros s. reflexivity. Qed.
Lemma strip_rep_none : forall p s, p <> [] -> strip_prefix p s = None -> strip_rep p s = s.
Proof.
  intros p s Hp H. unfold strip_rep. destruct (List.length s) as [|f]; [reflexivity|]. cbn [strip_rep_fuel].
  destruct p; [congruence|]. rewrite H. reflexivity.
Qed.
Lemma hex_upper_not_x : forall bs, strip_prefix s_0x (hex_encode true bs) = None /\ strip_prefix s_0X (hex_encode true bs) = None.
Proof.
  intros [|b bs]; [split; reflexivity|]. cbn [hex_encode]. cbn [strip_prefix s_0x s_0X].
  assert (E : forall v, v < 16 -> (120 =? hex_digit true v) = false /\ (88 =? hex_digit true v) = false).
  { intros v Hv.
    assert (F : forallb (fun v => negb (120 =? hex_digit true v) && negb (88 =? hex_digit true v)) (map N.of_nat (seq 0 16)) = true)
      by (vm_compute; reflexivity).
    rewrite forallb_forall in F. specialize (F v).
    assert (Hin : In v (map N.of_nat (seq 0 16))).
    { apply in_map_iff. exists (N.to_nat v). split; [apply N2Nat.id|]. apply in_seq. lia. }
    specialize (F Hin). apply andb_true_iff in F. destruct F as [F1 F2]. apply negb_true_iff in F1, F2. tauto. }
  destruct (E (b mod 16)) as [E1 E2]; [apply N.mod_lt; lia|].
  destruct (48 =? hex_digit true (b / 16)); rewrite ?E1, ?E2; split; reflexivity.
Qed.
Lemma strip_rep_once : forall p s, p <> [] -> strip_prefix p s = None -> strip_rep p (p ++ s) = s.
Proof.
  intros p s Hp H. unfold strip_rep. destruct p as [|c p']; [congruence|].
  cbn [List.length app strip_rep_fuel]. fold (app p' s).
  change (c :: p' ++ s) with ((c :: p') ++ s). rewrite strip_prefix_app.
  destruct (List.length (p' ++ s)) as [|f] eqn:E; [reflexivity|]. cbn [strip_rep_fuel]. rewrite H. reflexivity.
Qed.
Lemma value_text : forall v, wf_value v = true -> parse_value (print_value v) = Ok v.
Proof.
  intros [s|bs|x] H; cbn [wf_value print_value] in *; unfold parse_value.
  - assert (E : starts_with s_0x (quote s) || starts_with s_0X (quote s) = false) by reflexivity. rewrite E.
    unfold parse_float, parse_f32. rewrite parse_dec_quote. cbn [bind]. rewrite (unquote_quote _ H). reflexivity.
  - assert (E : starts_with s_0x (s_0x ++ hex_encode true bs) = true) by reflexivity. rewrite E. cbn [orb].
    destruct (hex_upper_not_x bs) as [N1 N2].
    rewrite (strip_rep_once s_0x _ ltac:(discriminate) N1). rewrite (strip_rep_none s_0X _ ltac:(discriminate) N2).
    rewrite (hex_roundtrip true bs H). reflexivity.
  - apply andb_true_iff in H. destruct H as [H H3]. apply andb_true_iff in H. destruct H as [H1 H2].
    apply negb_true_iff in H2, H3. rewrite H2, H3. cbn [orb]. rewrite (float_rt_parse x H1). reflexivity.
Qed.
Lemma value_fine : forall k v, key_ok k = true -> wf_value v = true -> kv_fine (k, print_value v).
Proof.
  intros k [s|bs|x] Hk H; cbn [wf_value print_value] in *.
  - apply fine_quote; assumption.
  - apply fine_plain; [exact Hk | | discriminate]. rewrite plain_app, (hex_encode_plain true bs H). reflexivity.
  - apply andb_true_iff in H. destruct H as [H _]. apply andb_true_iff in H. destruct H as [H _].
    unfold float_rt in H. apply andb_true_iff in H. destruct H as [H _]. apply andb_true_iff in H. destruct H as [Hp Hn].
    apply fine_plain; [exact Hk | exact Hp | destruct (print_f32 x); [discriminate | discriminate]].
Qed.

(* ---------- raw (unquoted) string attributes: SCTE35-* ---------- *)
Lemma unquote_not_quoted : forall c r, c <> 34 -> unquote (c :: r) = strip_bad (c :: r).
Proof.
  intros c r H. unfold unquote. destruct c as [|p]; [reflexivity|].
  do 6 (destruct p as [p|p|]; try reflexivity). congruence.
Qed.
Lemma unquote_plain : forall s, plain s = true -> unquote s = s.
Proof.
  intros s H. pose proof (plain_clean _ H) as Hc. destruct s as [|c r]; [reflexivity|].
  rewrite unquote_not_quoted.
  - unfold strip_bad. apply filter_id. exact Hc.
  - simpl in H. apply andb_true_iff in H. destruct H as [H _]. unfold plain_char in H.
    apply andb_true_iff in H. destruct H as [H _]. apply andb_true_iff in H. destruct H as [_ H].
    intro E. subst c. discriminate H.
Qed.
Definition raw_ok (o : option str) : bool := match o with Some s => plain s && negb (is_nil s) | None => true end.

(* ---------- client attributes ---------- *)
Definition cmp_gt (a b : str) : bool := match str_cmp a b with Gt => true | _ => false end.
Fixpoint sorted_client (l : list (str * Value)) : bool :=
  match l with
  | [] => true
  | (k, _) :: r => forallb (fun kv => cmp_gt (fst kv) k) r && sorted_client r
  end.
Definition client_key_ok (k : str) : bool := starts_with s_Xdash k && negb (any_char bad_client_char k).
Definition client_ok (kv : str * Value) : bool := client_key_ok (fst kv) && wf_value (snd kv).

Lemma btree_insert_last : forall l k v, forallb (fun kv => cmp_gt k (fst kv)) l = true -> btree_insert k v l = l ++ [(k, v)].
Proof.
  induction l as [|[k' v'] l IH]; intros k v H; [reflexivity|]. cbn [forallb fst] in H.
  apply andb_true_iff in H. destruct H as [Hc Hl]. cbn [btree_insert app]. unfold cmp_gt in Hc.
  destruct (str_cmp k k'); try discriminate. rewrite (IH k v Hl). reflexivity.
Qed.
Lemma good_char : forall c, bad_client_char c = false -> plain_char c && negb (c =? 61) = true.
Proof.
  intros c H. destruct (N.ltb_spec c 128) as [Hlt|Hge].
  - assert (F : forallb (fun c => bad_client_char c || (plain_char c && negb (c =? 61))) (map N.of_nat (seq 0 128)) = true)
      by (vm_compute; reflexivity).
    rewrite forallb_forall in F. specialize (F c).
    assert (Hin : In c (map N.of_nat (seq 0 128))).
    { apply in_map_iff. exists (N.to_nat c). split; [apply N2Nat.id|]. apply in_seq. lia. }
    specialize (F Hin). rewrite H in F. exact F.
  - unfold bad_client_char in H. assert (E : (127 <? c) = true) by (apply N.ltb_lt; lia). rewrite E in H.
    rewrite orb_true_r in H. discriminate H.
Qed.
Lemma client_key_key_ok : forall k, client_key_ok k = true -> key_ok k = true.
Proof.
  intros k H. unfold client_key_ok in H. apply andb_true_iff in H. destruct H as [Hs Hb]. apply negb_true_iff in Hb.
  unfold key_ok. apply andb_true_iff. split; [destruct k; [discriminate | reflexivity]|].
  rewrite forallb_forall. intros c Hc. apply good_char. unfold any_char in Hb.
  destruct (bad_client_char c) eqn:E; [|reflexivity].
  assert (existsb bad_client_char k = true) by (apply existsb_exists; eauto). congruence.
Qed.
Lemma not_named : forall k l, starts_with s_Xdash k = true -> starts_with s_Xdash l = false -> str_eqb k l = false.
Proof.
  intros k l Hk Hl. destruct (str_eqb k l) eqn:E; [|reflexivity]. apply str_eqb_eq in E. subst. congruence.
Qed.

Definition dra id cl st en du pl cmd out in_ eon client : dr_acc :=
  {| da_id := id; da_class := cl; da_start := st; da_end := en; da_duration := du; da_planned := pl;
     da_cmd := cmd; da_out := out; da_in := in_; da_eon := eon; da_client := client |}.
Lemma dr_attr_client : forall id cl st en du pl cmd out in_ eon client k v, client_key_ok k = true ->
  dr_attr (dra id cl st en du pl cmd out in_ eon client) (k, v)
  = let! val := parse_value v in Ok (dra id cl st en du pl cmd out in_ eon (btree_insert k val client)).
Proof.
  intros. unfold client_key_ok in H. apply andb_true_iff in H. destruct H as [Hs Hb]. apply negb_true_iff in Hb.
  unfold dr_attr.
  rewrite !(not_named k _ Hs) by reflexivity. rewrite Hs, Hb. reflexivity.
Qed.
Lemma fold_client : forall rest done id cl st en du pl cmd out in_ eon,
  forallb client_ok rest = true -> sorted_client rest = true ->
  (forall x y, In x done -> In y rest -> cmp_gt (fst y) (fst x) = true) ->
  fold_res dr_attr (map (fun kv => (fst kv, print_value (snd kv))) rest) (dra id cl st en du pl cmd out in_ eon done)
  = Ok (dra id cl st en du pl cmd out in_ eon (done ++ rest)).
Proof.
  induction rest as [|[k v] rest IH]; intros done id cl st en du pl cmd out in_ eon Hok Hs Hd.
  - rewrite app_nil_r. reflexivity.
  - cbn [forallb] in Hok. apply andb_true_iff in Hok. destruct Hok as [Hkv Hrest].
    unfold client_ok in Hkv. cbn [fst snd] in Hkv. apply andb_true_iff in Hkv. destruct Hkv as [Hk Hv].
    cbn [sorted_client] in Hs. apply andb_true_iff in Hs. destruct Hs as [Hgt Hs].
    cbn [map fold_res fst snd]. rewrite (dr_attr_client _ _ _ _ _ _ _ _ _ _ _ _ _ Hk), (value_text v Hv). cbn [bind].
    rewrite btree_insert_last.
    + rewrite IH; [rewrite <- app_assoc; reflexivity | exact Hrest | exact Hs |].
      intros x y Hx Hy. apply in_app_or in Hx. destruct Hx as [Hx | [<- | []]].
      * apply Hd; [exact Hx | right; exact Hy].
      * rewrite forallb_forall in Hgt. apply (Hgt y Hy).
    + rewrite forallb_forall. intros x Hx. apply (Hd x (k, v) Hx). left. reflexivity.
Qed.

(* ---------- the tag ---------- *)
Definition odur (o : option N) : bool := match o with Some n => dur_rt n | None => true end.
Definition wf_daterange (d : DateRange) : bool :=
  clean_quoted (dr_id d) && oclean (dr_class d) && oclean (dr_start d) && oclean (dr_end d)
  && odur (dr_duration d) && odur (dr_planned d)
  && raw_ok (dr_cmd d) && raw_ok (dr_out d) && raw_ok (dr_in d)
  && forallb client_ok (dr_client d) && sorted_client (dr_client d)
  && (if dr_eon d then is_some (dr_class d) && negb (is_some (dr_duration d)) && negb (is_some (dr_end d)) else true).
Definition dr_kvs (d : DateRange) : list kv :=
  [(s_ID, quote (dr_id d))]
  ++ okv (dr_class d) (fun s => (s_CLASS, quote s))
  ++ okv (dr_start d) (fun s => (s_START_DATE, quote s))
  ++ okv (dr_end d) (fun s => (s_END_DATE, quote s))
  ++ okv (dr_duration d) (fun n => (s_DURATION, print_duration n))
  ++ okv (dr_planned d) (fun n => (s_PLANNED_DURATION, print_duration n))
  ++ okv (dr_cmd d) (fun s => (s_SCTE35_CMD, (fun x : str => x) s))
  ++ okv (dr_out d) (fun s => (s_SCTE35_OUT, (fun x : str => x) s))
  ++ okv (dr_in d) (fun s => (s_SCTE35_IN, (fun x : str => x) s))
  ++ map (fun kv => (fst kv, print_value (snd kv))) (dr_client d)
  ++ bkv (dr_eon d) (s_END_ON_NEXT, s_YES).
Lemma render_tail_client : forall l,
  render_tail (map (fun kv : str * Value => (fst kv, print_value (snd kv))) l)
  = flat_map (fun kv => 44 :: fst kv ++ 61 :: print_value (snd kv)) l.
Proof. induction l as [|x l IH]; [reflexivity|]. cbn [map]. rewrite render_tail_cons. cbn [flat_map]. rewrite <- IH.
  cbn [fst snd app]. f_equal. rewrite <- !app_assoc. reflexivity. Qed.
Lemma print_daterange_kvs : forall d, print_daterange d = pfx_ExtXDateRange ++ render_kvs (dr_kvs d).
Proof.
  intros d. unfold print_daterange, dr_kvs, render_kvs. cbn [app].
  rewrite render_kv_app.
  repeat (rewrite render_tail_app || rewrite render_tail_cons).
  rewrite !render_tail_okv, render_tail_bkv, render_tail_client.
  rewrite <- !app_assoc. reflexivity.
Qed.

Ltac dr_step :=
  unfold dr_attr;
  cbn [str_eqb s_ID s_CLASS s_START_DATE s_END_DATE s_DURATION s_PLANNED_DURATION s_SCTE35_CMD s_SCTE35_OUT
       s_SCTE35_IN s_END_ON_NEXT N.eqb Pos.eqb andb];
  cbn [dra da_id da_class da_start da_end da_duration da_planned da_cmd da_out da_in da_eon da_client].

Section DrChunks.
Variables (id cl st en : option str) (du pl : option N) (cmd out in_ : option str) (eon : bool) (client : list (str * Value)).
Lemma drc_id : forall s, clean_quoted s = true ->
  fold_res dr_attr [(s_ID, quote s)] (dra None cl st en du pl cmd out in_ eon client) = Ok (dra (Some s) cl st en du pl cmd out in_ eon client).
Proof. intros s H. cbn [fold_res]. dr_step. rewrite (unquote_quote _ H). reflexivity. Qed.
Lemma drc_class : forall o, oclean o = true ->
  fold_res dr_attr (okv o (fun s => (s_CLASS, quote s))) (dra id None st en du pl cmd out in_ eon client) = Ok (dra id o st en du pl cmd out in_ eon client).
Proof. intros [s|] H; cbn [okv fold_res]; [|reflexivity]. dr_step. cbn [oclean] in H. rewrite (unquote_quote _ H). reflexivity. Qed.
Lemma drc_start : forall o, oclean o = true ->
  fold_res dr_attr (okv o (fun s => (s_START_DATE, quote s))) (dra id cl None en du pl cmd out in_ eon client) = Ok (dra id cl o en du pl cmd out in_ eon client).
Proof. intros [s|] H; cbn [okv fold_res]; [|reflexivity]. dr_step. cbn [oclean] in H. rewrite (unquote_quote _ H). reflexivity. Qed.
Lemma drc_end : forall o, oclean o = true ->
  fold_res dr_attr (okv o (fun s => (s_END_DATE, quote s))) (dra id cl st None du pl cmd out in_ eon client) = Ok (dra id cl st o du pl cmd out in_ eon client).
Proof. intros [s|] H; cbn [okv fold_res]; [|reflexivity]. dr_step. cbn [oclean] in H. rewrite (unquote_quote _ H). reflexivity. Qed.
Lemma drc_duration : forall o, odur o = true ->
  fold_res dr_attr (okv o (fun n => (s_DURATION, print_duration n))) (dra id cl st en None pl cmd out in_ eon client) = Ok (dra id cl st en o pl cmd out in_ eon client).
Proof. intros [n|] H; cbn [okv fold_res]; [|reflexivity]. dr_step. cbn [odur] in H. rewrite (dur_rt_parse _ H). reflexivity. Qed.
Lemma drc_planned : forall o, odur o = true ->
  fold_res dr_attr (okv o (fun n => (s_PLANNED_DURATION, print_duration n))) (dra id cl st en du None cmd out in_ eon client) = Ok (dra id cl st en du o cmd out in_ eon client).
Proof. intros [n|] H; cbn [okv fold_res]; [|reflexivity]. dr_step. cbn [odur] in H. rewrite (dur_rt_parse _ H). reflexivity. Qed.
Lemma raw_unquote : forall s, raw_ok (Some s) = true -> unquote s = s.
Proof. intros s H. cbn [raw_ok] in H. apply andb_true_iff in H. destruct H as [H _]. apply unquote_plain, H. Qed.
Lemma drc_cmd : forall o, raw_ok o = true ->
  fold_res dr_attr (okv o (fun s => (s_SCTE35_CMD, (fun x : str => x) s))) (dra id cl st en du pl None out in_ eon client) = Ok (dra id cl st en du pl o out in_ eon client).
Proof. intros [s|] H; cbn [okv fold_res]; [|reflexivity]. dr_step. rewrite (raw_unquote _ H). reflexivity. Qed.
Lemma drc_out : forall o, raw_ok o = true ->
  fold_res dr_attr (okv o (fun s => (s_SCTE35_OUT, (fun x : str => x) s))) (dra id cl st en du pl cmd None in_ eon client) = Ok (dra id cl st en du pl cmd o in_ eon client).
Proof. intros [s|] H; cbn [okv fold_res]; [|reflexivity]. dr_step. rewrite (raw_unquote _ H). reflexivity. Qed.
Lemma drc_in : forall o, raw_ok o = true ->
  fold_res dr_attr (okv o (fun s => (s_SCTE35_IN, (fun x : str => x) s))) (dra id cl st en du pl cmd out None eon client) = Ok (dra id cl st en du pl cmd out o eon client).
Proof. intros [s|] H; cbn [okv fold_res]; [|reflexivity]. dr_step. rewrite (raw_unquote _ H). reflexivity. Qed.
Lemma drc_eon : forall b,
  fold_res dr_attr (bkv b (s_END_ON_NEXT, s_YES)) (dra id cl st en du pl cmd out in_ false client) = Ok (dra id cl st en du pl cmd out in_ b client).
Proof. intros [|]; reflexivity. Qed.
End DrChunks.

Lemma dr_kvs_fine : forall d, wf_daterange d = true -> Forall kv_fine (dr_kvs d).
Proof.
  intros d H. unfold wf_daterange in H.
  repeat (apply andb_true_iff in H; let H2 := fresh "W" in destruct H as [H H2]).
  assert (Ho : forall k o, key_ok k = true -> oclean o = true -> Forall kv_fine (okv o (fun s => (k, quote s)))).
  { intros k [s|] Hk Hc; cbn [okv]; constructor; [apply fine_quote; assumption | constructor]. }
  assert (Hd : forall k o, key_ok k = true -> odur o = true -> Forall kv_fine (okv o (fun n => (k, print_duration n)))).
  { intros k [n|] Hk Hc; cbn [okv]; constructor; [|constructor]. cbn [odur] in Hc. unfold dur_rt in Hc.
    apply andb_true_iff in Hc. destruct Hc as [Hc _]. apply andb_true_iff in Hc. destruct Hc as [Hp Hn].
    apply fine_plain; [exact Hk | exact Hp | destruct (print_duration n); [discriminate | discriminate]]. }
  assert (Hr : forall k o, key_ok k = true -> raw_ok o = true -> Forall kv_fine (okv o (fun s => (k, (fun x : str => x) s)))).
  { intros k [s|] Hk Hc; cbn [okv]; constructor; [|constructor]. cbn [raw_ok] in Hc. apply andb_true_iff in Hc.
    destruct Hc as [Hp Hn]. apply fine_plain; [exact Hk | exact Hp | destruct s; [discriminate | discriminate]]. }
  unfold dr_kvs. repeat (apply Forall_app; split); try (apply Ho; [reflexivity | assumption]);
    try (apply Hd; [reflexivity | assumption]); try (apply Hr; [reflexivity | assumption]).
  - constructor; [apply fine_quote; [reflexivity | assumption] | constructor].
  - apply Forall_forall. intros p Hp. apply in_map_iff in Hp. destruct Hp as [[k v] [<- Hin]]. cbn [fst snd].
    rewrite forallb_forall in W1. specialize (W1 _ Hin). unfold client_ok in W1. cbn [fst snd] in W1.
    apply andb_true_iff in W1. destruct W1 as [Hk Hv]. apply value_fine; [apply client_key_key_ok, Hk | exact Hv].
  - destruct (dr_eon d); cbn [bkv]; constructor; [|constructor]. apply fine_plain; [reflexivity | reflexivity | discriminate].
Qed.

Theorem daterange_text : forall d, wf_daterange d = true ->
  parse_daterange (print_daterange d) = Ok d /\ good_line (print_daterange d) = true.
Proof.
  intros d H. pose proof (dr_kvs_fine d H) as Hf.
  assert (Hne : dr_kvs d <> []) by (unfold dr_kvs; discriminate).
  rewrite print_daterange_kvs. split; [|apply printed_line_good; try assumption; pfx_ok].
  unfold parse_daterange.
  destruct (tag_attrs pfx_ExtXDateRange (dr_kvs d) ltac:(pfx_ok) ltac:(pfx_ok) Hf Hne) as [E1 E2].
  rewrite E1. cbn [bind]. rewrite E2. clear E1 E2 Hf Hne.
  unfold wf_daterange in H.
  repeat (apply andb_true_iff in H; let H2 := fresh "W" in destruct H as [H H2]).
  unfold dr_kvs.
  change {| da_id := None; da_class := None; da_start := None; da_end := None; da_duration := None;
            da_planned := None; da_cmd := None; da_out := None; da_in := None; da_eon := false; da_client := [] |}
    with (dra None None None None None None None None None false []).
  rewrite fold_res_app, drc_id by assumption. cbn [bind].
  rewrite fold_res_app, drc_class by assumption. cbn [bind].
  rewrite fold_res_app, drc_start by assumption. cbn [bind].
  rewrite fold_res_app, drc_end by assumption. cbn [bind].
  rewrite fold_res_app, drc_duration by assumption. cbn [bind].
  rewrite fold_res_app, drc_planned by assumption. cbn [bind].
  rewrite fold_res_app, drc_cmd by assumption. cbn [bind].
  rewrite fold_res_app, drc_out by assumption. cbn [bind].
  rewrite fold_res_app, drc_in by assumption. cbn [bind].
  rewrite fold_res_app, fold_client; [|assumption|assumption|intros x y []]. cbn [bind app].
  rewrite drc_eon. cbn [bind dra da_id da_class da_start da_end da_duration da_planned da_cmd da_out da_in da_eon da_client of_opt].
  destruct d as [id cl st en du pl cmd out in_ eon client].
  cbn [dr_id dr_class dr_start dr_end dr_duration dr_planned dr_cmd dr_out dr_in dr_eon dr_client] in *.
  destruct eon; [|reflexivity].
  apply andb_true_iff in W. destruct W as [W Wc]. apply andb_true_iff in W. destruct W as [Wa Wb].
  apply negb_true_iff in Wb, Wc. rewrite Wa, Wb, Wc. reflexivity.
Qed.
