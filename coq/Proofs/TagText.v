(* TagText.v — every tag of a master playlist, written and read back: parse (print v) = Ok v for
   every well-formed value v.  The floats (FRAME-RATE, TIME-OFFSET) enter through a decidable
   hypothesis on the modelled std conversions (`ufloat_rt`, `float_rt`). *)
From hls Require Import Base Float Lex Kinds Types Tags Line Keys Media Master.
From hls.Generated Require Import Tables.
From hls.Proofs Require Import EqFacts C16 C12 Lexical Values TextLines AttrText.
From Coq Require Import Lia ZifyN ZifyNat.
Open Scope N_scope.

(* ---------- printed values that are fine as the last thing on a line ---------- *)
Definition vgood (v : str) : bool := first_ok (rev v) && no_lf v.
Definition kv_fine (p : kv) : Prop := key_ok (fst p) = true /\ val_ok (snd p) /\ vgood (snd p) = true.

Lemma no_lf_app : forall a b, no_lf (a ++ b) = no_lf a && no_lf b.
Proof. intros. unfold no_lf. apply forallb_app. Qed.
Lemma plain_no_lf : forall s, plain s = true -> no_lf s = true.
Proof.
  intros s H. apply plain_no_ws in H. unfold no_lf. rewrite forallb_forall in *. intros c Hc.
  specialize (H c Hc). destruct (N.eqb_spec c 10) as [->|]; [discriminate H | reflexivity].
Qed.
Lemma vgood_plain : forall s, plain s = true -> s <> [] -> vgood s = true.
Proof.
  intros s H Hn. unfold vgood. rewrite (plain_no_lf _ H), andb_true_r.
  pose proof (plain_no_ws _ H) as Hw.
  assert (Hr : forallb (fun c => negb (is_ws c)) (rev s) = true).
  { rewrite forallb_forall in *. intros x Hx. apply Hw, in_rev, Hx. }
  destruct (rev s) as [|d r] eqn:E.
  - apply (f_equal (@List.length char)) in E. rewrite rev_length in E. destruct s; [congruence | discriminate].
  - simpl in Hr. apply andb_true_iff in Hr. simpl. tauto.
Qed.
Lemma clean_no_lf : forall s, clean_quoted s = true -> no_lf s = true.
Proof.
  intros s H. unfold clean_quoted, no_lf in *. rewrite forallb_forall in *. intros c Hc.
  specialize (H c Hc). unfold is_bad_quoted in H. destruct (c =? 10); [|reflexivity].
  rewrite orb_true_r in H. discriminate.
Qed.
Lemma clean_filter_id : forall s, clean_quoted s = true -> filter (fun c => negb (c =? 34)) s = s.
Proof.
  intros s H. apply filter_id. unfold clean_quoted in H. rewrite forallb_forall in *. intros c Hc.
  specialize (H c Hc). unfold is_bad_quoted in H. destruct (c =? 34); [discriminate | reflexivity].
Qed.
Lemma vgood_quoted : forall s, no_lf s = true -> vgood (34 :: s ++ [34]) = true.
Proof.
  intros s H. unfold vgood. apply andb_true_iff. split.
  - change (34 :: s ++ [34]) with ((34 :: s) ++ [34]). rewrite rev_app_distr. reflexivity.
  - change (34 :: s ++ [34]) with ([34] ++ s ++ [34]). rewrite !no_lf_app, H. reflexivity.
Qed.
Lemma fine_quote : forall k s, key_ok k = true -> clean_quoted s = true -> kv_fine (k, quote s).
Proof.
  intros k s Hk Hs. split; [exact Hk|]. split; [apply val_ok_quote|].
  unfold quote. rewrite (clean_filter_id _ Hs). apply vgood_quoted, clean_no_lf, Hs.
Qed.
Lemma fine_plain : forall k s, key_ok k = true -> plain s = true -> s <> [] -> kv_fine (k, s).
Proof. intros k s Hk Hs Hn. split; [exact Hk|]. split; [apply val_ok_plain, Hs | apply vgood_plain; assumption]. Qed.
Lemma fine_quoted_plain : forall k s, key_ok k = true -> plain s = true -> kv_fine (k, 34 :: s ++ [34]).
Proof.
  intros k s Hk Hs. split; [exact Hk|]. split.
  - apply val_ok_quoted. unfold no_quote. unfold plain in Hs. rewrite forallb_forall in *. intros c Hc.
    specialize (Hs c Hc). unfold plain_char in Hs. apply andb_true_iff in Hs. destruct Hs as [Hs _].
    apply andb_true_iff in Hs. tauto.
  - apply vgood_quoted, plain_no_lf, Hs.
Qed.

(* a printed tag line is a good line *)
Lemma key_ok_no_lf : forall k, key_ok k = true -> no_lf k = true.
Proof.
  intros k H. unfold key_ok in H. apply andb_true_iff in H. destruct H as [_ H]. apply plain_no_lf.
  unfold plain. rewrite forallb_forall in *. intros c Hc. specialize (H c Hc). apply andb_true_iff in H. tauto.
Qed.
Lemma render_tail_good : forall l, Forall kv_fine l -> l <> [] ->
  first_ok (rev (render_tail l)) = true /\ no_lf (render_tail l) = true.
Proof.
  induction l as [|p l IH]; intros H Hn; [congruence|].
  inversion H as [|? ? Hp Hl]; subst. destruct Hp as [Hk [_ Hv]]. unfold vgood in Hv.
  apply andb_true_iff in Hv. destruct Hv as [Hv1 Hv2].
  assert (Hkv : first_ok (rev (44 :: render_kv p)) = true /\ no_lf (44 :: render_kv p) = true).
  { split.
    - unfold render_kv. change (44 :: fst p ++ 61 :: snd p) with ((44 :: fst p) ++ [61] ++ snd p).
      rewrite app_assoc. apply first_ok_rev_app, Hv1.
    - unfold render_kv. cbn [no_lf forallb]. fold (no_lf (fst p ++ 61 :: snd p)). rewrite no_lf_app.
      rewrite (key_ok_no_lf _ Hk). cbn [no_lf forallb]. fold (no_lf (snd p)). rewrite Hv2. reflexivity. }
  cbn [render_tail flat_map]. fold (render_tail l). destruct l as [|p2 l'].
  - cbn [render_tail flat_map]. rewrite app_nil_r. exact Hkv.
  - destruct (IH Hl ltac:(discriminate)) as [I1 I2]. split.
    + apply first_ok_rev_app, I1.
    + rewrite no_lf_app. destruct Hkv as [_ ->]. rewrite I2. reflexivity.
Qed.
Lemma render_kvs_good : forall l, Forall kv_fine l -> l <> [] ->
  first_ok (rev (render_kvs l)) = true /\ no_lf (render_kvs l) = true.
Proof.
  intros [|p l] H Hn; [congruence|]. inversion H as [|? ? Hp Hl]; subst.
  destruct Hp as [Hk [_ Hv]]. unfold vgood in Hv. apply andb_true_iff in Hv. destruct Hv as [Hv1 Hv2].
  assert (B1 : first_ok (rev (render_kv p)) = true).
  { unfold render_kv. change (fst p ++ 61 :: snd p) with (fst p ++ [61] ++ snd p).
    rewrite app_assoc. apply first_ok_rev_app, Hv1. }
  assert (B2 : no_lf (render_kv p) = true).
  { unfold render_kv. change (fst p ++ 61 :: snd p) with (fst p ++ [61] ++ snd p).
    rewrite !no_lf_app, (key_ok_no_lf _ Hk), Hv2. reflexivity. }
  unfold render_kvs. destruct l as [|p2 l'].
  - cbn [render_tail flat_map]. rewrite app_nil_r. split; assumption.
  - destruct (render_tail_good (p2 :: l') Hl ltac:(discriminate)) as [I1 I2]. split.
    + apply first_ok_rev_app, I1.
    + rewrite no_lf_app, B2, I2. reflexivity.
Qed.
Lemma printed_line_good : forall pfx l, first_ok pfx = true -> no_lf pfx = true ->
  Forall kv_fine l -> l <> [] -> good_line (pfx ++ render_kvs l) = true.
Proof.
  intros pfx l H1 H2 Hl Hn. destruct (render_kvs_good l Hl Hn) as [G1 G2].
  unfold good_line. rewrite no_lf_app, H2, G2. rewrite (first_ok_rev_app pfx _ G1).
  destruct pfx; [discriminate|]. simpl in H1. simpl. rewrite H1. reflexivity.
Qed.
Lemma fine_kv_ok : forall l, Forall kv_fine l -> Forall kv_ok l.
Proof. intros l H. eapply Forall_impl; [|exact H]. intros p [A [B _]]. split; assumption. Qed.

(* the common first steps of every attribute-list tag parser *)
Lemma tag_attrs : forall pfx l, first_ok pfx = true -> no_lf pfx = true -> Forall kv_fine l -> l <> [] ->
  tag (pfx ++ render_kvs l) pfx = Ok (render_kvs l) /\ attr_pairs (render_kvs l) = l.
Proof.
  intros pfx l H1 H2 Hl Hn. split.
  - apply tag_printed, printed_line_good; assumption.
  - apply attr_pairs_printed, fine_kv_ok, Hl.
Qed.

(* ---------- split / join ---------- *)
Definition no_char (c : char) (s : str) : bool := forallb (fun x => negb (x =? c)) s.
Lemma split_on_none : forall c s, no_char c s = true -> split_on c s = [s].
Proof.
  induction s as [|x r IH]; simpl; intros H; [reflexivity|].
  apply andb_true_iff in H. destruct H as [Hx Hr]. apply negb_true_iff in Hx. rewrite Hx.
  rewrite (IH Hr). reflexivity.
Qed.
Lemma split_join : forall c l, l <> [] -> forallb (no_char c) l = true ->
  split_on c (join_with [c] l) = l.
Proof.
  intros c. induction l as [|x l IH]; intros Hn H; [congruence|].
  simpl in H. apply andb_true_iff in H. destruct H as [Hx Hl]. destruct l as [|y l'].
  - simpl. apply split_on_none, Hx.
  - change (join_with [c] (x :: y :: l')) with (x ++ [c] ++ join_with [c] (y :: l')).
    cbn [app]. rewrite split_on_append, (split_on_none _ _ Hx), (IH ltac:(discriminate) Hl). reflexivity.
Qed.

(* enum indices as N *)
Lemma enum_roundtrip_N : forall tbl i, enum_table_ok tbl = true -> i < N.of_nat (List.length tbl) ->
  enum_parse tbl (enum_print tbl i) = Ok i.
Proof.
  intros tbl i Hok Hi. rewrite <- (N2Nat.id i). apply enum_roundtrip; [exact Hok | lia].
Qed.
Lemma enum_print_nonempty : forall (tbl : list str) i, forallb (fun s => negb (is_nil s)) tbl = true ->
  i < N.of_nat (List.length tbl) -> enum_print tbl i <> [].
Proof.
  intros tbl i H Hi. rewrite forallb_forall in H.
  assert (Hin : In (enum_print tbl i) tbl) by (unfold enum_print; apply nth_In; lia).
  specialize (H _ Hin). intro E. rewrite E in H. discriminate H.
Qed.
Lemma enum_tables_nonempty :
  forallb (fun s => negb (is_nil s)) enum_EncryptionMethod = true
  /\ forallb (fun s => negb (is_nil s)) enum_MediaType = true
  /\ forallb (fun s => negb (is_nil s)) enum_HdcpLevel = true
  /\ forallb (fun s => negb (is_nil s)) enum_InStreamId = true.
Proof. vm_compute. repeat split. Qed.
Lemma print_uint_nonempty : forall n, print_uint n <> [].
Proof. intros n. destruct (print_uint_head n) as [d [r [E _]]]. rewrite E. discriminate. Qed.

(* ================= EXT-X-SESSION-DATA ================= *)
Definition oclean (o : option str) : bool := match o with Some s => clean_quoted s | None => true end.
Definition wf_sdata (d : SessionData) : bool :=
  clean_quoted (xs_id d)
  && match xs_data d with SdValue v => clean_quoted v | SdUri u => clean_quoted u end
  && oclean (xs_lang d).
Definition sdata_kvs (d : SessionData) : list kv :=
  (s_DATA_ID, quote (xs_id d))
  :: match xs_data d with SdValue v => (s_VALUE, quote v) | SdUri u => (s_URI, quote u) end
  :: okv (xs_lang d) (fun l => (s_LANGUAGE, quote l)).
Lemma print_sdata_kvs : forall d, print_session_data d = pfx_ExtXSessionData ++ render_kvs (sdata_kvs d).
Proof.
  intros [id data lang]. unfold print_session_data, sdata_kvs, render_kvs, render_kv, opt_str.
  cbn [xs_id xs_data xs_lang fst snd]. destruct data, lang; cbn [okv render_tail flat_map render_kv fst snd];
    rewrite ?app_nil_r, <- ?app_assoc; reflexivity.
Qed.
Lemma pfx_facts :
  forallb (fun p => first_ok p && no_lf p)
    [pfx_ExtXSessionData; pfx_ExtXSessionKey; pfx_ExtXKey; pfx_ExtXMedia; pfx_ExtXStart; pfx_ExtXMap;
     pfx_VariantStream_EXTXIFRAME; pfx_VariantStream_EXTXSTREAMINF; pfx_ExtXDateRange] = true.
Proof. vm_compute. reflexivity. Qed.
Ltac pfx_ok := vm_compute; reflexivity.

Lemma sdata_kvs_fine : forall d, wf_sdata d = true -> Forall kv_fine (sdata_kvs d).
Proof.
  intros [id data lang] H. unfold wf_sdata in H. cbn [xs_id xs_data xs_lang] in H.
  apply andb_true_iff in H. destruct H as [H Hl]. apply andb_true_iff in H. destruct H as [Hi Hd].
  unfold sdata_kvs. cbn [xs_id xs_data xs_lang].
  constructor; [apply fine_quote; [reflexivity | exact Hi]|].
  constructor; [destruct data; apply fine_quote; (reflexivity || exact Hd)|].
  destruct lang as [l|]; cbn [okv]; [|constructor].
  constructor; [apply fine_quote; [reflexivity | exact Hl] | constructor].
Qed.

Theorem session_data_text : forall d, wf_sdata d = true ->
  parse_session_data (print_session_data d) = Ok d /\ good_line (print_session_data d) = true.
Proof.
  intros d H. pose proof (sdata_kvs_fine d H) as Hf. rewrite print_sdata_kvs.
  assert (Hne : sdata_kvs d <> []) by (unfold sdata_kvs; discriminate).
  split; [|apply printed_line_good; try assumption; pfx_ok].
  unfold parse_session_data.
  destruct (tag_attrs pfx_ExtXSessionData (sdata_kvs d) ltac:(pfx_ok) ltac:(pfx_ok) Hf Hne) as [E1 E2].
  rewrite E1. cbn [bind]. rewrite E2. clear E1 E2. destruct d as [id data lang]. unfold wf_sdata in H. cbn [xs_id xs_data xs_lang] in H.
  apply andb_true_iff in H. destruct H as [H Hl]. apply andb_true_iff in H. destruct H as [Hi Hd].
  unfold sdata_kvs. cbn [xs_id xs_data xs_lang].
  destruct data as [v|u], lang as [l|]; cbn [okv fold_res]; unfold xs_attr;
    cbn [str_eqb s_DATA_ID s_VALUE s_URI s_LANGUAGE N.eqb Pos.eqb andb bind xa_id xa_value xa_uri xa_lang of_opt];
    rewrite ?clean_unquote_quote by assumption; reflexivity.
Qed.

(* ================= DecryptionKey (EXT-X-KEY, EXT-X-SESSION-KEY) ================= *)
Lemma quote_quote : forall s, quote (quote s) = quote s.
Proof.
  intros s. unfold quote. cbn [filter N.eqb Pos.eqb negb].
  rewrite filter_app. cbn [filter N.eqb Pos.eqb negb]. rewrite app_nil_r.
  f_equal. f_equal.
  apply filter_id. rewrite forallb_forall. intros c Hc. apply filter_In in Hc. tauto.
Qed.
Lemma plain_clean : forall s, plain s = true -> clean_quoted s = true.
Proof.
  intros s H. unfold plain, clean_quoted in *. rewrite forallb_forall in *. intros c Hc. specialize (H c Hc).
  unfold plain_char in H. apply andb_true_iff in H. destruct H as [H _]. apply andb_true_iff in H. destruct H as [Hw Hq].
  unfold is_bad_quoted. apply negb_true_iff in Hq. rewrite Hq.
  destruct (N.eqb_spec c 10) as [->|]; [discriminate Hw|]. destruct (N.eqb_spec c 13) as [->|]; [discriminate Hw|]. reflexivity.
Qed.
Lemma unquote_quoted_plain : forall s, plain s = true -> unquote (34 :: s ++ [34]) = s.
Proof.
  intros s H. pose proof (plain_clean _ H) as Hc. rewrite <- (clean_filter_id _ Hc) at 1.
  apply unquote_quote. exact Hc.
Qed.

Definition known_kf (s : str) : bool :=
  str_eqb s s_identity || str_eqb s s_fairplay || str_eqb s s_widevine || str_eqb s s_playready.
Definition kf_wf (f : KeyFormat) : bool :=
  match f with KfOther s => clean_quoted s && negb (known_kf s) | _ => true end.
Lemma kf_text_clean : forall f, kf_wf f = true -> clean_quoted (kf_text f) = true.
Proof. intros [| | | |s] H; try reflexivity. simpl in *. apply andb_true_iff in H. tauto. Qed.
Lemma key_format_text : forall f, kf_wf f = true -> parse_key_format (quote (print_key_format f)) = f.
Proof.
  intros f H. unfold print_key_format. rewrite quote_quote. unfold parse_key_format.
  rewrite (unquote_quote _ (kf_text_clean f H)). destruct f as [| | | |s]; try reflexivity.
  simpl in H. apply andb_true_iff in H. destruct H as [_ H]. apply negb_true_iff in H. unfold known_kf in H.
  apply orb_false_iff in H. destruct H as [H H4]. apply orb_false_iff in H. destruct H as [H H3].
  apply orb_false_iff in H. destruct H as [H1 H2]. cbn [kf_text]. rewrite H1, H2, H3, H4. reflexivity.
Qed.

Definition kfv_wf (v : list N) : bool :=
  negb (is_nil v) && (List.length v <=? 9)%nat && forallb (fun x => x <? 256) v.
Lemma kfv_items : forall v n, (List.length v <= n)%nat -> forallb (fun x => x <? 256) v = true ->
  parse_kfv_items (map print_uint v) n = Ok v.
Proof.
  induction v as [|x v IH]; intros n Hn Hb; [reflexivity|].
  simpl in Hb. apply andb_true_iff in Hb. destruct Hb as [Hx Hv]. apply N.ltb_lt in Hx.
  cbn [map parse_kfv_items]. unfold parse_u8. rewrite (parse_print_uint 8 x) by (simpl; lia). cbn [of_opt bind].
  destruct n as [|n']; [simpl in Hn; lia|]. rewrite (IH n') by (simpl in Hn; try lia; assumption). reflexivity.
Qed.
Lemma digits_no_char : forall c s, is_digit c = false -> forallb is_digit s = true -> no_char c s = true.
Proof.
  intros c s Hc H. unfold no_char. rewrite forallb_forall in *. intros x Hx. specialize (H x Hx).
  destruct (N.eqb_spec x c) as [->|]; [congruence | reflexivity].
Qed.
Lemma join_plain : forall c l, plain_char c = true -> forallb plain l = true -> plain (join_with [c] l) = true.
Proof.
  intros c. induction l as [|x l IH]; intros Hc H; [reflexivity|].
  simpl in H. apply andb_true_iff in H. destruct H as [Hx Hl]. destruct l as [|y l']; [exact Hx|].
  change (join_with [c] (x :: y :: l')) with (x ++ [c] ++ join_with [c] (y :: l')).
  rewrite !plain_app, Hx, (IH Hc Hl). simpl. rewrite Hc. reflexivity.
Qed.
Lemma kfv_text : forall v, kfv_wf v = true -> parse_kfv (print_kfv v) = Ok v.
Proof.
  intros v H. unfold kfv_wf in H. apply andb_true_iff in H. destruct H as [H Hb].
  apply andb_true_iff in H. destruct H as [Hn Hl]. apply Nat.leb_le in Hl.
  unfold print_kfv. destruct (kfv_is_default v) eqn:Ed.
  - destruct v as [|x [|y v']]; try discriminate. simpl in Ed. apply N.eqb_eq in Ed. subst x. reflexivity.
  - unfold parse_kfv.
    assert (Hp : plain (join_with [47] (map print_uint v)) = true).
    { apply join_plain; [reflexivity|]. rewrite forallb_forall. intros s Hs. apply in_map_iff in Hs.
      destruct Hs as [x [<- _]]. apply print_uint_plain. }
    rewrite (unquote_quoted_plain _ Hp). rewrite split_join.
    + apply kfv_items; assumption.
    + destruct v; [discriminate | discriminate].
    + rewrite forallb_forall. intros s Hs. apply in_map_iff in Hs. destruct Hs as [x [<- _]].
      apply digits_no_char; [reflexivity | apply print_uint_digits].
Qed.
Lemma kfv_fine : forall k v, key_ok k = true -> kv_fine (k, print_kfv v).
Proof.
  intros k v Hk. unfold print_kfv. destruct (kfv_is_default v).
  - split; [exact Hk|]. split; [split; reflexivity | reflexivity].
  - apply fine_quoted_plain; [exact Hk|]. apply join_plain; [reflexivity|].
    rewrite forallb_forall. intros s Hs. apply in_map_iff in Hs. destruct Hs as [x [<- _]]. apply print_uint_plain.
Qed.

Definition iv_wf (iv : IV) : bool :=
  match iv with
  | IvAes bs => (List.length bs =? 16)%nat && forallb (fun b => b <? 256) bs
  | IvMissing => true
  | IvNumber _ => false
  end.
Definition wf_key (k : Key) : bool :=
  (k_method k <? 2) && clean_quoted (k_uri k) && negb (is_nil (trim (k_uri k))) && iv_wf (k_iv k)
  && match k_format k with Some f => kf_wf f | None => true end
  && match k_versions k with Some v => kfv_wf v | None => true end.
Definition key_kvs (k : Key) : list kv :=
  (s_METHOD, enum_print enum_EncryptionMethod (k_method k))
  :: (s_URI, quote (k_uri k))
  :: match k_iv k with IvAes bs => [(s_IV, s_0x ++ hex_encode false bs)] | _ => [] end
  ++ okv (k_format k) (fun f => (s_KEYFORMAT, quote (print_key_format f)))
  ++ okv (k_versions k) (fun v => (s_KEYFORMATVERSIONS, print_kfv v)).
Lemma print_key_kvs : forall k, print_decryption_key k = render_kvs (key_kvs k).
Proof.
  intros [m u iv f v]. unfold print_decryption_key, key_kvs, render_kvs, render_kv.
  cbn [k_method k_uri k_iv k_format k_versions fst snd].
  destruct iv, f, v; cbn [okv app render_tail flat_map render_kv fst snd];
    rewrite ?app_nil_r, <- ?app_assoc; reflexivity.
Qed.
Lemma key_kvs_fine : forall k, wf_key k = true -> Forall kv_fine (key_kvs k).
Proof.
  intros [m u iv f v] H. unfold wf_key in H. cbn [k_method k_uri k_iv k_format k_versions] in H.
  repeat (apply andb_true_iff in H; let H2 := fresh "W" in destruct H as [H H2]).
  apply N.ltb_lt in H.
  unfold key_kvs. cbn [k_method k_uri k_iv k_format k_versions].
  constructor.
  { apply fine_plain; [reflexivity | apply enum_print_plain, enum_tables_plain |].
    apply enum_print_nonempty; [apply enum_tables_nonempty | exact H]. }
  constructor; [apply fine_quote; [reflexivity | assumption]|].
  apply Forall_app. split.
  { destruct iv as [bs| |]; try constructor; [|constructor].
    simpl in W1. apply andb_true_iff in W1. destruct W1 as [_ Wb].
    apply fine_plain; [reflexivity | | discriminate].
    rewrite plain_app. rewrite (hex_encode_plain false bs Wb). reflexivity. }
  apply Forall_app. split.
  { destruct f as [f|]; cbn [okv]; [|constructor]. constructor; [|constructor].
    unfold print_key_format. rewrite quote_quote. apply fine_quote; [reflexivity | apply kf_text_clean, W0]. }
  destruct v as [v|]; cbn [okv]; [|constructor]. constructor; [apply kfv_fine; reflexivity | constructor].
Qed.

Theorem decryption_key_text : forall k, wf_key k = true ->
  parse_decryption_key (print_decryption_key k) = Ok k.
Proof.
  intros k H. pose proof (key_kvs_fine k H) as Hf. rewrite print_key_kvs.
  unfold parse_decryption_key. rewrite (attr_pairs_printed _ (fine_kv_ok _ Hf)). clear Hf.
  destruct k as [m u iv f v]. unfold wf_key in H. cbn [k_method k_uri k_iv k_format k_versions] in H.
  repeat (apply andb_true_iff in H; let H2 := fresh "W" in destruct H as [H H2]).
  apply N.ltb_lt in H. apply negb_true_iff in W2.
  assert (Hm : enum_parse enum_EncryptionMethod (enum_print enum_EncryptionMethod m) = Ok m).
  { apply enum_roundtrip_N; [apply enum_tables_ok | exact H]. }
  unfold key_kvs. cbn [k_method k_uri k_iv k_format k_versions].
  destruct iv as [bs| |]; try discriminate W1;
  destruct f as [f|], v as [v|]; cbn [okv app fold_res]; unfold key_attr;
    cbn [str_eqb s_METHOD s_URI s_IV s_KEYFORMAT s_KEYFORMATVERSIONS N.eqb Pos.eqb andb];
    rewrite Hm; cbn [bind ka_method ka_uri ka_iv ka_format ka_versions];
    rewrite (unquote_quote _ W3), W2; cbn [bind ka_method ka_uri ka_iv ka_format ka_versions];
    try (simpl in W1; apply andb_true_iff in W1; destruct W1 as [Wl Wb]; apply Nat.eqb_eq in Wl;
         rewrite (iv_roundtrip bs Wl Wb); cbn [bind ka_method ka_uri ka_iv ka_format ka_versions]);
    rewrite ?(key_format_text f W0); rewrite ?(kfv_text v W);
    cbn [bind of_opt ka_method ka_uri ka_iv ka_format ka_versions]; reflexivity.
Qed.

Theorem session_key_text : forall k, wf_key k = true ->
  parse_session_key (print_session_key k) = Ok k /\ good_line (print_session_key k) = true.
Proof.
  intros k H. pose proof (key_kvs_fine k H) as Hf.
  assert (Hne : key_kvs k <> []) by (unfold key_kvs; discriminate).
  unfold print_session_key, parse_session_key. rewrite print_key_kvs.
  split; [|apply printed_line_good; try assumption; pfx_ok].
  destruct (tag_attrs pfx_ExtXSessionKey (key_kvs k) ltac:(pfx_ok) ltac:(pfx_ok) Hf Hne) as [E1 _].
  rewrite E1. cbn [bind]. rewrite <- print_key_kvs. apply decryption_key_text, H.
Qed.

Lemma none_scan_stays : forall l a, snd (fold_left none_scan l (a, false)) = false.
Proof.
  induction l as [|[k v] l IH]; intros a; [reflexivity|]. cbn [fold_left]. unfold none_scan at 2. cbn [fst snd].
  destruct (str_eqb k s_METHOD && str_eqb v s_NONE); [apply IH|].
  destruct (str_eqb k s_METHOD || str_eqb k s_URI || str_eqb k s_IV || str_eqb k s_KEYFORMAT || str_eqb k s_KEYFORMATVERSIONS); apply IH.
Qed.
Lemma key_kvs_not_none : forall d, k_method d = 0 \/ k_method d = 1 -> is_method_none (key_kvs d) = false.
Proof.
  intros d Hm. unfold is_method_none, key_kvs.
  match goal with |- context [fold_left none_scan (?x :: ?tl) _] => remember tl as tail end.
  cbn [fold_left].
  assert (E : none_scan (false, true) (s_METHOD, enum_print enum_EncryptionMethod (k_method d)) = (false, false)).
  { destruct Hm as [-> | ->]; reflexivity. }
  rewrite E. rewrite none_scan_stays. apply andb_false_r.
Qed.
Theorem xkey_text : forall k, match k with Some d => wf_key d = true | None => True end ->
  parse_xkey (print_xkey k) = Ok k /\ good_line (print_xkey k) = true.
Proof.
  intros [d|] H; [|split; reflexivity].
  pose proof (key_kvs_fine d H) as Hf.
  assert (Hne : key_kvs d <> []) by (unfold key_kvs; discriminate).
  unfold print_xkey, parse_xkey. rewrite print_key_kvs.
  split; [|apply printed_line_good; try assumption; pfx_ok].
  destruct (tag_attrs pfx_ExtXKey (key_kvs d) ltac:(pfx_ok) ltac:(pfx_ok) Hf Hne) as [E1 E2].
  rewrite E1. cbn [bind]. rewrite E2.
  assert (Hm : k_method d = 0 \/ k_method d = 1).
  { unfold wf_key in H. repeat (apply andb_true_iff in H; destruct H as [H _]). apply N.ltb_lt in H. lia. }
  rewrite (key_kvs_not_none d Hm). rewrite <- print_key_kvs, (decryption_key_text d H). reflexivity.
Qed.

(* ================= EXT-X-START ================= *)
Definition fval_eqb (a b : fval) : bool :=
  match a, b with
  | FZero x, FZero y => Bool.eqb x y
  | FInf x, FInf y => Bool.eqb x y
  | FNan, FNan => true
  | FFin s m e, FFin s' m' e' => Bool.eqb s s' && (m =? m')%Z && (e =? e')%Z
  | _, _ => false
  end.
Lemma fval_eqb_eq : forall a b, fval_eqb a b = true -> a = b.
Proof.
  intros [x|x| |s m e] [y|y| |s' m' e'] H; simpl in H; try discriminate; try reflexivity.
  - apply Bool.eqb_prop in H. subst. reflexivity.
  - apply Bool.eqb_prop in H. subst. reflexivity.
  - apply andb_true_iff in H. destruct H as [H He]. apply andb_true_iff in H. destruct H as [Hs Hm].
    apply Bool.eqb_prop in Hs. apply Z.eqb_eq in Hm, He. subst. reflexivity.
Qed.
(* the std conversions give the value back for this float, and its text is attribute-safe *)
Definition float_rt (x : fval) : bool :=
  plain (print_f32 x) && negb (is_nil (print_f32 x))
  && match parse_float (print_f32 x) with Ok y => fval_eqb y x | _ => false end.
Definition ufloat_rt (x : fval) : bool :=
  plain (print_fixed3 x) && negb (is_nil (print_fixed3 x))
  && match parse_ufloat (print_fixed3 x) with Ok y => fval_eqb y x | _ => false end.
Lemma float_rt_parse : forall x, float_rt x = true -> parse_float (print_f32 x) = Ok x.
Proof.
  intros x H. unfold float_rt in H. apply andb_true_iff in H. destruct H as [_ H].
  destruct (parse_float (print_f32 x)) as [y| |]; try discriminate. apply fval_eqb_eq in H. subst. reflexivity.
Qed.
Lemma ufloat_rt_parse : forall x, ufloat_rt x = true -> parse_ufloat (print_fixed3 x) = Ok x.
Proof.
  intros x H. unfold ufloat_rt in H. apply andb_true_iff in H. destruct H as [_ H].
  destruct (parse_ufloat (print_fixed3 x)) as [y| |]; try discriminate. apply fval_eqb_eq in H. subst. reflexivity.
Qed.

Definition wf_start (s : Start) : bool := float_rt (st_offset s).
Definition start_kvs (s : Start) : list kv :=
  (s_TIME_OFFSET, print_f32 (st_offset s)) :: bkv (st_precise s) (s_PRECISE, s_YES).
Lemma print_start_kvs : forall s, print_start s = pfx_ExtXStart ++ render_kvs (start_kvs s).
Proof.
  intros [o p]. unfold print_start, start_kvs, render_kvs, render_kv. cbn [st_offset st_precise fst snd].
  destruct p; cbn [bkv render_tail flat_map render_kv fst snd]; rewrite ?app_nil_r, <- ?app_assoc; reflexivity.
Qed.
Theorem start_text : forall s, wf_start s = true ->
  parse_start (print_start s) = Ok s /\ good_line (print_start s) = true.
Proof.
  intros [o p] H. unfold wf_start in H. cbn [st_offset] in H. pose proof (float_rt_parse o H) as Hp.
  unfold float_rt in H. apply andb_true_iff in H. destruct H as [H _]. apply andb_true_iff in H. destruct H as [Hpl Hne0].
  assert (Hf : Forall kv_fine (start_kvs {| st_offset := o; st_precise := p |})).
  { unfold start_kvs. cbn [st_offset st_precise]. constructor.
    - apply fine_plain; [reflexivity | exact Hpl | destruct (print_f32 o); [discriminate | discriminate]].
    - destruct p; cbn [bkv]; constructor; [|constructor]. apply fine_plain; [reflexivity | reflexivity | discriminate]. }
  assert (Hne : start_kvs {| st_offset := o; st_precise := p |} <> []) by (unfold start_kvs; discriminate).
  rewrite print_start_kvs. split; [|apply printed_line_good; try assumption; pfx_ok].
  unfold parse_start.
  destruct (tag_attrs pfx_ExtXStart _ ltac:(pfx_ok) ltac:(pfx_ok) Hf Hne) as [E1 E2].
  rewrite E1. cbn [bind]. rewrite E2. unfold start_kvs. cbn [st_offset st_precise].
  destruct p; cbn [bkv fold_res]; unfold start_attr;
    cbn [str_eqb s_TIME_OFFSET s_PRECISE N.eqb Pos.eqb andb]; rewrite Hp; reflexivity.
Qed.

