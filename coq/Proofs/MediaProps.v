(* MediaProps.v — what every accepted media playlist satisfies: numbering, derived IVs, byte
   ranges, the target-duration rule, prefix stability, trailing partial segments, no panic. *)
From hls Require Import Base Float Lex Kinds Types Tags Line Keys Media.
From hls.Generated Require Import Tables.
From hls.Proofs Require Import EqFacts Build Parse.
From Coq Require Import Lia ZifyN ZifyBool.
Open Scope N_scope.

Lemma present_map_some : forall A (l : list A), present (map Some l) = l.
Proof. induction l; simpl; congruence. Qed.
Lemma present_app : forall A (a b : list (option A)), present (a ++ b) = present a ++ present b.
Proof. intros. unfold present. apply flat_map_app. Qed.

(* inversion of a successful build *)
Lemma build_ok_inv : forall b p, build b = Ok p ->
  exists t slots slots',
    b_target b = Some t /\ b_segments b = Some slots /\ validate_segments b t = true
    /\ build_loop slots 0 (odef (b_mseq b) 0) None = Ok slots' /\ forallb is_some slots' = true
    /\ mp_segs p = present slots' /\ mp_mseq p = odef (b_mseq b) 0 /\ mp_target p = t
    /\ mp_excess p = odef (b_excess b) 0.
Proof.
  intros b p H. unfold build in H.
  destruct (b_target b) as [t|] eqn:Et.
  - destruct (validate_segments b t) eqn:Ev; [|discriminate].
    apply bind_ok in H. destruct H as [slots [Hs H]].
    destruct (b_segments b) as [sl|]; [|discriminate]. inversion Hs; subst sl.
    destruct (match present slots with f :: _ => _ | [] => true end); [|discriminate].
    apply bind_ok in H. destruct H as [slots' [Hl H]].
    destruct (forallb is_some slots') eqn:Ec; [|discriminate].
    cbn [of_opt bind] in H. inversion H; subst p; simpl.
    exists t, slots, slots'. repeat split; auto.
  - exfalso.
    apply bind_ok in H. destruct H as [slots [Hs H]].
    destruct (match present slots with f :: _ => _ | [] => true end); [|discriminate].
    apply bind_ok in H. destruct H as [slots' [Hl H]].
    destruct (forallb is_some slots'); discriminate.
Qed.

(* inversion of an accepted item list *)
Lemma parse_items_inv : forall b0 ls p, parse_items b0 ls = Ok p ->
  exists s, run_lines (init_state b0) ls = Ok s /\ ps_partial s = false /\ finish_media s = Ok p.
Proof.
  intros b0 ls p H. unfold parse_items in H. apply bind_ok in H. destruct H as [s [Hr Hf]].
  exists s. split; [assumption|]. split; [|assumption].
  unfold finish_media in Hf. destruct (ps_partial s); [discriminate | reflexivity].
Qed.

Definition items_wf_all (ls : list (res line)) : Prop := forall l, In (Ok l) ls -> line_wf l.

(* the segments before and after build, position by position *)
Lemma finish_segments : forall s p, Inv s -> finish_media s = Ok p ->
  List.length (mp_segs p) = List.length (ps_segs s) /\
  forall k s0, nth_error (rev (ps_segs s)) k = Some s0 ->
    exists sg, nth_error (mp_segs p) k = Some sg /\ same_content s0 sg
      /\ sg_number sg = mp_mseq p + N.of_nat k
      /\ sg_keys sg = map (derive_iv (sg_number sg)) (sg_keys s0).
Proof.
  intros s p [Hsegs _] H. unfold finish_media in H.
  destruct (ps_partial s); [discriminate|].
  apply build_ok_inv in H. cbn [b_target b_segments b_mseq b_excess] in H.
  destruct H as [t [slots [slots' [Ht [Hs [Hv [Hl [Hc [Hp [Hm _]]]]]]]]]].
  inversion Hs; subst slots. clear Hs.
  destruct (build_loop_all_some _ _ _ _ _ Hl) as [segs' [-> Hlen]].
  rewrite present_map_some in Hp. rewrite Hp. split; [rewrite Hlen, rev_length; reflexivity|].
  intros k s0 Hk.
  destruct (build_loop_nth _ _ _ _ _ Hl k s0 Hk) as [sg [Hsg [Hc' [Hn Hkeys]]]].
  exists sg. split; [assumption|]. split; [assumption|]. split; [|assumption].
  assert (He : sg_explicit s0 = false).
  { apply Hsegs. apply in_rev. eapply nth_error_In; eassumption. }
  rewrite He in Hn. rewrite Hn, Hm. lia.
Qed.

(* ---------- C07 ---------- *)
Lemma accepted_numbers : forall b0 ls p, items_wf_all ls -> parse_items b0 ls = Ok p ->
  forall k sg, nth_error (mp_segs p) k = Some sg -> sg_number sg = mp_mseq p + N.of_nat k.
Proof.
  intros b0 ls p Hwf H k sg Hk.
  destruct (parse_items_inv _ _ _ H) as [s [Hr [_ Hf]]].
  assert (Hi : Inv s) by (eapply run_lines_inv; [apply init_inv | exact Hwf | exact Hr]).
  destruct (finish_segments _ _ Hi Hf) as [Hlen Hall].
  assert (Hlt : (k < List.length (rev (ps_segs s)))%nat).
  { rewrite rev_length, <- Hlen. apply nth_error_Some. congruence. }
  destruct (nth_error (rev (ps_segs s)) k) as [s0|] eqn:E0; [|apply nth_error_None in E0; lia].
  destruct (Hall k s0 E0) as [sg' [Hsg' [_ [Hn _]]]]. congruence.
Qed.

Lemma accepted_keys : forall b0 ls p, items_wf_all ls -> parse_items b0 ls = Ok p ->
  exists s, run_lines (init_state b0) ls = Ok s /\
    List.length (mp_segs p) = List.length (ps_segs s) /\
    forall k s0, nth_error (rev (ps_segs s)) k = Some s0 ->
      exists sg, nth_error (mp_segs p) k = Some sg /\
        sg_keys sg = map (derive_iv (mp_mseq p + N.of_nat k)) (sg_keys s0) /\ sg_uri sg = sg_uri s0
        /\ sg_inf sg = sg_inf s0 /\ sg_map sg = sg_map s0.
Proof.
  intros b0 ls p Hwf H.
  destruct (parse_items_inv _ _ _ H) as [s [Hr [_ Hf]]].
  assert (Hi : Inv s) by (eapply run_lines_inv; [apply init_inv | exact Hwf | exact Hr]).
  destruct (finish_segments _ _ Hi Hf) as [Hlen Hall].
  exists s. split; [assumption|]. split; [assumption|].
  intros k s0 Hk. destruct (Hall k s0 Hk) as [sg [Hsg [Hc [Hn Hkeys]]]].
  exists sg. split; [assumption|]. rewrite <- Hn.
  destruct Hc as [Hu [Hi' [Hm _]]]. tauto.
Qed.

(* ---------- C09 ---------- *)
Lemma build_durations : forall b p, build b = Ok p ->
  forall sg, In sg (mp_segs p) ->
    rounded_ns (inf_dur (sg_inf sg)) <= max_seg_dur (mp_target p) (b_excess b).
Proof.
  intros b p H sg Hin.
  apply build_ok_inv in H.
  destruct H as [t [slots [slots' [Ht [Hs [Hv [Hl [Hc [Hp [Hm [Htt _]]]]]]]]]]].
  unfold validate_segments in Hv. rewrite Hs in Hv.
  apply andb_true_iff in Hv. destruct Hv as [Hv _].
  apply andb_true_iff in Hv. destruct Hv as [_ Hd].
  rewrite forallb_forall in Hd. rewrite Htt.
  (* durations are untouched by the loop: relate sg to its source slot *)
  rewrite Hp in Hin. clear Hp Hc Ht Hs Hm Htt.
  revert slots' Hl Hin. generalize 0 at 1. generalize (None : option ByteRange).
  induction slots as [|[s0|] slots IH]; intros prev i slots' Hl Hin; simpl in Hl.
  - inversion Hl; subst. destruct Hin.
  - apply bind_ok in Hl. destruct Hl as [num [_ Hl]].
    apply bind_ok in Hl. destruct Hl as [rg [_ Hl]].
    apply bind_ok in Hl. destruct Hl as [t' [Ht' Hl]]. inversion Hl; subst slots'. clear Hl.
    simpl in Hin. destruct Hin as [<- | Hin].
    + simpl. apply N.leb_le. apply Hd. simpl. left; reflexivity.
    + eapply IH; [|eassumption|eassumption]. intros x Hx. apply Hd. simpl. right; assumption.
  - apply bind_ok in Hl. destruct Hl as [t' [Ht' Hl]]. inversion Hl; subst slots'. clear Hl.
    simpl in Hin. eapply IH; [|eassumption|eassumption]. intros x Hx. apply Hd. exact Hx.
Qed.

Lemma validate_iff_rule : forall b t slots, b_segments b = Some slots ->
  (validate_segments b t = true <->
   (match b_indep b with Some true => indep_ok (present slots) = true | _ => True end)
   /\ (forall s, In s (present slots) -> rounded_ns (inf_dur (sg_inf s)) <= max_seg_dur t (b_excess b))
   /\ ranges_ok (present slots) None = true).
Proof.
  intros b t slots Hs. unfold validate_segments. rewrite Hs.
  rewrite !andb_true_iff, forallb_forall.
  assert (Hle : forall s, (rounded_ns (inf_dur (sg_inf s)) <=? max_seg_dur t (b_excess b)) = true
                          <-> rounded_ns (inf_dur (sg_inf s)) <= max_seg_dur t (b_excess b))
    by (intros; apply N.leb_le).
  destruct (b_indep b) as [[|]|]; split; intros [[H1 H2] H3] || intros [H1 [H2 H3]];
    repeat split; auto; intros s Hin; apply Hle; auto.
Qed.

(* ---------- C16 ---------- *)
Lemma trailing_segment_tag_rejected : forall b0 ls t p,
  is_segment_tag t = true -> parse_items b0 (ls ++ [Ok (LTag t)]) = Ok p -> False.
Proof.
  intros b0 ls t p Ht H.
  destruct (parse_items_inv _ _ _ H) as [s [Hr [Hp _]]].
  rewrite run_lines_app in Hr. apply bind_ok in Hr. destruct Hr as [s1 [_ Hr]].
  simpl in Hr. apply bind_ok in Hr. destruct Hr as [s2 [Hstep Hr]]. inversion Hr; subst s2.
  rewrite (step_segment_tag_partial _ _ _ Ht Hstep) in Hp. discriminate.
Qed.

(* common segments of an accepted item list and an accepted extension of it *)
Lemma prefix_segments : forall b0 l1 l2 p q, items_wf_all (l1 ++ l2) ->
  parse_items b0 l1 = Ok p -> parse_items b0 (l1 ++ l2) = Ok q -> mp_mseq p = mp_mseq q ->
  firstn (List.length (mp_segs p)) (mp_segs q) = mp_segs p.
Proof.
  intros b0 l1 l2 p q Hwf Hp Hq Hm.
  destruct (parse_items_inv _ _ _ Hp) as [s1 [Hr1 [_ Hf1]]].
  destruct (parse_items_inv _ _ _ Hq) as [s2 [Hr2 [_ Hf2]]].
  rewrite run_lines_app, Hr1 in Hr2. cbn [bind] in Hr2.
  destruct (run_lines_segs_grow _ _ _ Hr2) as [new Hnew].
  unfold finish_media in Hf1, Hf2.
  destruct (ps_partial s1); [discriminate|]. destruct (ps_partial s2); [discriminate|].
  apply build_ok_inv in Hf1. apply build_ok_inv in Hf2.
  cbn [b_target b_segments b_mseq b_excess] in Hf1, Hf2.
  destruct Hf1 as [t1 [sl1 [sl1' [_ [Hs1 [_ [Hl1 [_ [Hp1 [Hm1 _]]]]]]]]]].
  destruct Hf2 as [t2 [sl2 [sl2' [_ [Hs2 [_ [Hl2 [_ [Hp2 [Hm2 _]]]]]]]]]].
  inversion Hs1; subst sl1. inversion Hs2; subst sl2. clear Hs1 Hs2.
  rewrite Hnew, rev_app_distr, map_app in Hl2.
  destruct (build_loop_app _ _ _ _ _ _ Hl2) as [r1 [r2 [Hr1' [-> Hlen]]]].
  assert (Eseq : odef (b_mseq (ps_b s1)) 0 = odef (b_mseq (ps_b s2)) 0) by congruence.
  rewrite <- Eseq in Hr1'. rewrite Hl1 in Hr1'. inversion Hr1'; subst r1.
  rewrite Hp1, Hp2, present_app.
  rewrite firstn_app, firstn_all, Nat.sub_diag. simpl. apply app_nil_r.
Qed.

(* ---------- C05: no panic on well-formed items ---------- *)
Lemma step_no_panic : forall s l, step s l <> Panic.
Proof.
  intros s l. destruct l as [t| |u]; unfold step.
  - destruct (in_kinds (kind_of t) media_rejects); [discriminate|].
    destruct t; cbn [step_tag set_seg set_b];
      repeat match goal with |- context [if ?c then _ else _] => destruct c end; discriminate.
  - discriminate.
  - apply bind_np; [destruct (sa_inf (ps_seg s)); discriminate | discriminate].
Qed.

Lemma run_lines_no_panic : forall ls s, (forall r, In r ls -> r <> Panic) -> run_lines s ls <> Panic.
Proof.
  induction ls as [|r ls IH]; simpl; intros s Hnp; [discriminate|].
  apply bind_np; [apply Hnp; left; reflexivity|].
  intros l _. apply bind_np; [apply step_no_panic|].
  intros s' _. apply IH. intros r' Hin. apply Hnp. right; assumption.
Qed.

Lemma parse_items_no_panic : forall b0 ls,
  (forall r, In r ls -> r <> Panic) -> items_wf_all ls -> parse_items b0 ls <> Panic.
Proof.
  intros b0 ls Hnp Hwf. unfold parse_items.
  apply bind_np; [apply run_lines_no_panic; assumption|].
  intros s Hr.
  assert (Hi : Inv s) by (eapply run_lines_inv; [apply init_inv | exact Hwf | exact Hr]).
  unfold finish_media. destruct (ps_partial s); [discriminate|].
  apply build_no_panic. cbn [b_segments]. intros slots sg Hs Hin. inversion Hs; subst slots.
  apply in_map_iff in Hin. destruct Hin as [x [Hx Hin]]. inversion Hx; subst x.
  apply in_rev in Hin. destruct Hi as [Hsegs _]. apply Hsegs. assumption.
Qed.

(* ---------- C16: an item stays pending across everything that is not its URI line ---------- *)
Definition not_uri (r : res line) : Prop := match r with Ok (LUri _) => False | _ => True end.
Lemma step_keeps_partial : forall s l s', ps_partial s = true -> not_uri (Ok l) -> step s l = Ok s' -> ps_partial s' = true.
Proof.
  intros s l s' Hp Hn H. unfold step in H. destruct l as [t| |u]; [| inversion H; subst; exact Hp | destruct Hn].
  destruct (in_kinds (kind_of t) media_rejects); [discriminate|].
  destruct t; cbn [step_tag set_seg set_b] in H; try discriminate;
    try (inversion H; subst; cbn [ps_partial]; first [exact Hp | reflexivity]).
  (* EXT-X-DISCONTINUITY-SEQUENCE: two guards *)
  destruct (negb (is_nil (ps_segs s))); [discriminate|]. destruct (ps_hasdisc s); [discriminate|].
  inversion H; subst; cbn [ps_partial]; exact Hp.
Qed.
Lemma run_keeps_partial : forall rest s s', ps_partial s = true -> Forall not_uri rest -> run_lines s rest = Ok s' -> ps_partial s' = true.
Proof.
  induction rest as [|r rest IH]; intros s s' Hp Hn H.
  - inversion H; subst; exact Hp.
  - cbn [run_lines] in H. inversion Hn as [|? ? Hr Hrest]; subst. destruct r as [l| |]; cbn [bind] in H; try discriminate.
    destruct (step s l) as [s1| |] eqn:E; cbn [bind] in H; try discriminate.
    apply (IH s1 s' (step_keeps_partial s l s1 Hp Hr E) Hrest H).
Qed.
(* a text cut anywhere behind a segment tag whose URI line has not come yet is rejected, whatever tags or comments follow *)
Theorem pending_item_rejected : forall b0 ls t rest p,
  is_segment_tag t = true -> Forall not_uri rest -> parse_items b0 (ls ++ Ok (LTag t) :: rest) = Ok p -> False.
Proof.
  intros b0 ls t rest p Ht Hrest H.
  destruct (parse_items_inv _ _ _ H) as [s [Hr [Hp _]]].
  rewrite run_lines_app in Hr. apply bind_ok in Hr. destruct Hr as [s1 [_ Hr]].
  cbn [run_lines bind] in Hr. apply bind_ok in Hr. destruct Hr as [s2 [Hstep Hr]].
  pose proof (step_segment_tag_partial _ _ _ Ht Hstep) as P2.
  rewrite (run_keeps_partial rest s2 s P2 Hrest Hr) in Hp. discriminate.
Qed.
