(* TagTextSegment.v — the tags of a media playlist, written and read back (EXT-X-DATERANGE is in
   TagTextDateRange.v).  Durations enter through the decidable hypothesis `dur_rt` on the modelled
   std conversions (Duration -> f64 -> shortest decimal -> f64 -> Duration). *)
From hls Require Import Base Float Lex Kinds Types Tags Line Keys Media Master.
From hls.Generated Require Import Tables.
From hls.Proofs Require Import EqFacts C16 C12 Lexical Values TextLines AttrText TagText.
From Coq Require Import Lia ZifyN ZifyNat.
Open Scope N_scope.

(* a line made of a literal prefix and one plain value *)
Lemma plain_line_good : forall pfx v, first_ok pfx = true -> no_lf pfx = true -> plain v = true -> v <> [] ->
  good_line (pfx ++ v) = true.
Proof.
  intros pfx v H1 H2 Hp Hn. unfold good_line. rewrite no_lf_app, H2, (plain_no_lf _ Hp).
  pose proof (vgood_plain v Hp Hn) as Hv. unfold vgood in Hv. apply andb_true_iff in Hv. destruct Hv as [Hv _].
  rewrite (first_ok_rev_app pfx v Hv). destruct pfx; [discriminate|]. simpl in H1. simpl. rewrite H1. reflexivity.
Qed.

(* ================= integers ================= *)
Theorem target_duration_text : forall n, n < two64 ->
  parse_target_duration (pfx_ExtXTargetDuration ++ print_uint n) = Ok n
  /\ good_line (pfx_ExtXTargetDuration ++ print_uint n) = true.
Proof.
  intros n H. assert (G : good_line (pfx_ExtXTargetDuration ++ print_uint n) = true)
    by (apply plain_line_good; [reflexivity | reflexivity | apply print_uint_plain | apply print_uint_nonempty]).
  split; [|exact G]. unfold parse_target_duration. rewrite (tag_printed _ _ G). cbn [bind].
  unfold parse_u64. rewrite (parse_print_uint 64 n) by (unfold two64 in H; lia). reflexivity.
Qed.
Theorem media_sequence_text : forall n, n < two64 ->
  parse_media_sequence (pfx_ExtXMediaSequence ++ print_uint n) = Ok n
  /\ good_line (pfx_ExtXMediaSequence ++ print_uint n) = true.
Proof.
  intros n H. assert (G : good_line (pfx_ExtXMediaSequence ++ print_uint n) = true)
    by (apply plain_line_good; [reflexivity | reflexivity | apply print_uint_plain | apply print_uint_nonempty]).
  split; [|exact G]. unfold parse_media_sequence. rewrite (tag_printed _ _ G). cbn [bind].
  unfold parse_usize. rewrite (parse_print_uint 64 n) by (unfold two64 in H; lia). reflexivity.
Qed.
Theorem disc_sequence_text : forall n, n < two64 ->
  parse_disc_sequence (pfx_ExtXDiscontinuitySequence ++ print_uint n) = Ok n
  /\ good_line (pfx_ExtXDiscontinuitySequence ++ print_uint n) = true.
Proof.
  intros n H. assert (G : good_line (pfx_ExtXDiscontinuitySequence ++ print_uint n) = true)
    by (apply plain_line_good; [reflexivity | reflexivity | apply print_uint_plain | apply print_uint_nonempty]).
  split; [|exact G]. unfold parse_disc_sequence. rewrite (tag_printed _ _ G). cbn [bind].
  unfold parse_usize. rewrite (parse_print_uint 64 n) by (unfold two64 in H; lia). reflexivity.
Qed.
Theorem playlist_type_text : forall t, t < 2 ->
  parse_playlist_type (print_playlist_type t) = Ok t /\ good_line (print_playlist_type t) = true.
Proof. intros t H. assert (E : t = 0 \/ t = 1) by lia. destruct E as [-> | ->]; split; reflexivity. Qed.
Theorem version_text : forall v, 1 <= v <= 7 ->
  parse_version (pfx_ExtXVersion ++ print_protocol_version v) = Ok v.
Proof.
  intros v H. assert (E : v = 1 \/ v = 2 \/ v = 3 \/ v = 4 \/ v = 5 \/ v = 6 \/ v = 7) by lia.
  destruct E as [->|[->|[->|[->|[->|[->| ->]]]]]]; reflexivity.
Qed.
Theorem flags_text :
  parse_flag pfx_ExtXEndList pfx_ExtXEndList = Ok tt /\ parse_flag pfx_ExtXIFramesOnly pfx_ExtXIFramesOnly = Ok tt
  /\ parse_flag pfx_ExtXIndependentSegments pfx_ExtXIndependentSegments = Ok tt
  /\ parse_discontinuity pfx_ExtXDiscontinuity = Ok tt.
Proof. repeat split; reflexivity. Qed.

(* ================= EXT-X-BYTERANGE ================= *)
Definition wf_range (r : ByteRange) : bool :=
  (br_end r <? two64) && match br_start r with Some s => s <=? br_end r | None => true end.
Lemma print_byte_range_plain : forall r, plain (print_byte_range r) = true /\ print_byte_range r <> [].
Proof.
  intros [st e]. unfold print_byte_range, br_len. cbn [br_start br_end]. split.
  - rewrite plain_app, print_uint_plain. destruct st as [s|]; [|reflexivity].
    change (64 :: print_uint s) with ([64] ++ print_uint s). rewrite plain_app, print_uint_plain. reflexivity.
  - pose proof (print_uint_nonempty (e - match st with Some x => x | None => 0 end)) as Hn.
    destruct (print_uint (e - match st with Some x => x | None => 0 end)); [congruence | discriminate].
Qed.
Lemma byte_range_text : forall r, wf_range r = true -> parse_byte_range (print_byte_range r) = Ok r.
Proof.
  intros r H. unfold wf_range in H. apply andb_true_iff in H. destruct H as [He Hs]. apply N.ltb_lt in He.
  apply byte_range_roundtrip; [exact He|]. destruct (br_start r); [apply N.leb_le, Hs | exact I].
Qed.
Theorem xbyterange_text : forall r, wf_range r = true ->
  parse_xbyterange (print_xbyterange r) = Ok r /\ good_line (print_xbyterange r) = true.
Proof.
  intros r H. destruct (print_byte_range_plain r) as [Hp Hn]. unfold print_xbyterange.
  assert (G : good_line (pfx_ExtXByteRange ++ print_byte_range r) = true)
    by (apply plain_line_good; [reflexivity | reflexivity | exact Hp | exact Hn]).
  split; [|exact G]. unfold parse_xbyterange. rewrite (tag_printed _ _ G). cbn [bind]. apply byte_range_text, H.
Qed.

(* ================= EXT-X-MAP ================= *)
Definition wf_xmap (m : ExtXMap) : bool :=
  clean_quoted (map_uri m) && match map_range m with Some r => wf_range r | None => true end.
Definition xmap_kvs (m : ExtXMap) : list kv :=
  (s_URI, quote (map_uri m)) :: okv (map_range m) (fun r => (s_BYTERANGE, quote (print_byte_range r))).
Lemma print_xmap_kvs : forall m, print_xmap m = pfx_ExtXMap ++ render_kvs (xmap_kvs m).
Proof.
  intros [u r k]. unfold print_xmap, xmap_kvs, render_kvs, render_kv. cbn [map_uri map_range fst snd].
  destruct r; cbn [okv render_tail flat_map render_kv fst snd]; rewrite ?app_nil_r, <- ?app_assoc; reflexivity.
Qed.
(* the tag parser returns the map without keys: the playlist parser attaches the keys in effect *)
Theorem xmap_text : forall m, wf_xmap m = true ->
  parse_xmap (print_xmap m) = Ok {| map_uri := map_uri m; map_range := map_range m; map_keys := [] |}
  /\ good_line (print_xmap m) = true.
Proof.
  intros [u r k] H. unfold wf_xmap in H. cbn [map_uri map_range] in *. apply andb_true_iff in H. destruct H as [Hu Hr].
  assert (Hf : Forall kv_fine (xmap_kvs {| map_uri := u; map_range := r; map_keys := k |})).
  { unfold xmap_kvs. cbn [map_uri map_range]. constructor; [apply fine_quote; [reflexivity | exact Hu]|].
    destruct r as [r|]; cbn [okv]; constructor; [|constructor].
    apply fine_quote; [reflexivity | apply plain_clean, print_byte_range_plain]. }
  assert (Hne : xmap_kvs {| map_uri := u; map_range := r; map_keys := k |} <> []) by (unfold xmap_kvs; discriminate).
  rewrite print_xmap_kvs. split; [|apply printed_line_good; try assumption; pfx_ok].
  unfold parse_xmap.
  destruct (tag_attrs pfx_ExtXMap _ ltac:(pfx_ok) ltac:(pfx_ok) Hf Hne) as [E1 E2].
  rewrite E1. cbn [bind]. rewrite E2. unfold xmap_kvs. cbn [map_uri map_range].
  destruct r as [r|]; cbn [okv fold_res]; unfold map_attr;
    cbn [str_eqb s_URI s_BYTERANGE N.eqb Pos.eqb andb fst snd bind]; rewrite (unquote_quote _ Hu).
  - rewrite unquote_quote by (apply plain_clean, print_byte_range_plain).
    rewrite (byte_range_text r Hr). reflexivity.
  - reflexivity.
Qed.

(* ================= EXT-X-PROGRAM-DATE-TIME (opaque text with default features) ================= *)
Theorem pdt_text : forall s, good_line (print_pdt s) = true -> parse_pdt (print_pdt s) = Ok s.
Proof. intros s H. unfold parse_pdt, print_pdt in *. apply tag_printed, H. Qed.

(* ================= EXTINF ================= *)
Definition dur_rt (ns : N) : bool :=
  plain (print_duration ns) && negb (is_nil (print_duration ns))
  && match parse_duration (print_duration ns) with Ok m => m =? ns | _ => false end.
Lemma dur_rt_parse : forall ns, dur_rt ns = true -> parse_duration (print_duration ns) = Ok ns.
Proof.
  intros ns H. unfold dur_rt in H. apply andb_true_iff in H. destruct H as [_ H].
  destruct (parse_duration (print_duration ns)) as [m| |]; try discriminate. apply N.eqb_eq in H. subst. reflexivity.
Qed.
Definition wf_title (t : option str) : bool :=
  match t with Some s => negb (is_nil s) && good_line s | None => true end.
Definition wf_extinf (i : ExtInf) : bool := dur_rt (inf_dur i) && wf_title (inf_title i).
Lemma split_once_plain : forall a b, plain a = true -> split_once 44 (a ++ 44 :: b) = Some (a, b).
Proof.
  induction a as [|c a IH]; intros b H; [reflexivity|]. simpl in H. apply andb_true_iff in H. destruct H as [Hc Ha].
  unfold plain_char in Hc. apply andb_true_iff in Hc. destruct Hc as [_ Hc]. apply negb_true_iff in Hc.
  cbn [app split_once]. rewrite Hc, (IH b Ha). reflexivity.
Qed.
Theorem extinf_text : forall i, wf_extinf i = true ->
  parse_extinf (print_extinf i) = Ok i /\ good_line (print_extinf i) = true.
Proof.
  intros [d t] H. unfold wf_extinf in H. cbn [inf_dur inf_title] in H. apply andb_true_iff in H. destruct H as [Hd Ht].
  pose proof (dur_rt_parse d Hd) as Hp. unfold dur_rt in Hd. apply andb_true_iff in Hd. destruct Hd as [Hd _].
  apply andb_true_iff in Hd. destruct Hd as [Hpl Hne].
  unfold print_extinf. cbn [inf_dur inf_title].
  assert (G : good_line (pfx_ExtInf ++ print_duration d ++ [44] ++ match t with Some s => s | None => [] end) = true).
  { destruct t as [s|].
    - cbn [wf_title] in Ht. apply andb_true_iff in Ht. destruct Ht as [_ Hg].
      unfold good_line in *. apply andb_true_iff in Hg. destruct Hg as [Hg Hl]. apply andb_true_iff in Hg. destruct Hg as [_ Hr].
      rewrite !no_lf_app, (plain_no_lf _ Hpl), Hl. rewrite !app_assoc. rewrite (first_ok_rev_app _ s Hr). reflexivity.
    - rewrite app_nil_r. unfold good_line. rewrite !no_lf_app, (plain_no_lf _ Hpl).
      rewrite app_assoc. rewrite (first_ok_rev_app _ [44] eq_refl). reflexivity. }
  split; [|exact G]. unfold parse_extinf. rewrite (tag_printed _ _ G). cbn [bind].
  unfold splitn2. cbn [app]. rewrite (split_once_plain _ _ Hpl). rewrite Hp. cbn [bind].
  destruct t as [s|]; [|reflexivity].
  cbn [wf_title] in Ht. apply andb_true_iff in Ht. destruct Ht as [Hn Hg].
  rewrite (good_line_trim _ Hg). destruct s; [discriminate | reflexivity].
Qed.
