(* TagIff.v — C14 for EXT-X-SESSION-DATA, EXT-X-START and EXT-X-MAP as iffs over ALL attribute lists. *)
From hls Require Import Base Float Lex Kinds Types Tags.
From hls.Generated Require Import Tables.
From hls.Proofs Require Import EqFacts NoPanic StreamIff.
Open Scope N_scope.

(* ---------- EXT-X-SESSION-DATA: DATA-ID and exactly one of VALUE and URI ---------- *)
Definition xs_kind (k : str) : N :=
  if str_eqb k s_DATA_ID then 1 else if str_eqb k s_VALUE then 2 else if str_eqb k s_URI then 3 else 0.
Definition xs_has (n : N) (l : list (str * str)) : bool := existsb (fun kv => xs_kind (fst kv) =? n) l.
Definition xs_flags (a : xs_acc) : bool * bool * bool := (is_some (xa_id a), is_some (xa_value a), is_some (xa_uri a)).
Definition xs_or (f : bool * bool * bool) (k : N) : bool * bool * bool :=
  let '(i, v, u) := f in (i || (k =? 1), v || (k =? 2), u || (k =? 3)).
Lemma xs_step_spec : forall a kv, exists a', xs_attr a kv = Ok a' /\ xs_flags a' = xs_or (xs_flags a) (xs_kind (fst kv)).
Proof.
  intros a [k v]. unfold xs_attr, xs_kind, xs_flags, xs_or. cbn [fst].
  destruct (str_eqb k s_DATA_ID); [eexists; split; [reflexivity|]; cbn [xa_id xa_value xa_uri is_some N.eqb Pos.eqb]; rewrite ?orb_false_r, ?orb_true_r; reflexivity|].
  destruct (str_eqb k s_VALUE); [eexists; split; [reflexivity|]; cbn [xa_id xa_value xa_uri is_some N.eqb Pos.eqb]; rewrite ?orb_false_r, ?orb_true_r; reflexivity|].
  destruct (str_eqb k s_URI); [eexists; split; [reflexivity|]; cbn [xa_id xa_value xa_uri is_some N.eqb Pos.eqb]; rewrite ?orb_false_r, ?orb_true_r; reflexivity|].
  destruct (str_eqb k s_LANGUAGE); eexists; (split; [reflexivity|]); cbn [xa_id xa_value xa_uri N.eqb]; rewrite ?orb_false_r; reflexivity.
Qed.
Fixpoint xs_flags_of (f : bool * bool * bool) (l : list (str * str)) : bool * bool * bool :=
  match l with [] => f | kv :: r => xs_flags_of (xs_or f (xs_kind (fst kv))) r end.
Lemma xs_flags_of_spec : forall l i v u, xs_flags_of (i, v, u) l = (i || xs_has 1 l, v || xs_has 2 l, u || xs_has 3 l).
Proof.
  induction l as [|kv l IH]; intros i v u; cbn [xs_flags_of xs_has existsb].
  - rewrite !orb_false_r. reflexivity.
  - cbn [xs_or]. rewrite IH. unfold xs_has. rewrite !orb_assoc. reflexivity.
Qed.
Lemma fold_xs_spec : forall l a, exists a', fold_res xs_attr l a = Ok a' /\ xs_flags a' = xs_flags_of (xs_flags a) l.
Proof.
  induction l as [|kv l IH]; intros a; cbn [fold_res xs_flags_of]; [eexists; split; reflexivity|].
  destruct (xs_step_spec a kv) as [a1 [E1 F1]]. rewrite E1. cbn [bind]. rewrite <- F1. apply IH.
Qed.
Theorem session_data_accept_iff : forall line,
  is_ok (parse_session_data line) =
  match tag line pfx_ExtXSessionData with
  | Ok rest => let l := attr_pairs rest in xs_has 1 l && xorb (xs_has 2 l) (xs_has 3 l)
  | _ => false
  end.
Proof.
  intros line. unfold parse_session_data. destruct (tag line pfx_ExtXSessionData) as [rest| |]; cbn [bind]; try reflexivity.
  cbv zeta. set (l := attr_pairs rest).
  destruct (fold_xs_spec l {| xa_id := None; xa_value := None; xa_uri := None; xa_lang := None |}) as [a [E F]]. rewrite E. cbn [bind].
  unfold xs_flags in F. cbn [xa_id xa_value xa_uri is_some] in F. rewrite xs_flags_of_spec in F. cbn [orb] in F. inversion F as [[A B C]].
  destruct (xa_id a); cbn [of_opt bind is_some andb]; [|reflexivity].
  destruct (xa_value a), (xa_uri a); reflexivity.
Qed.

(* ---------- EXT-X-START: a TIME-OFFSET that is a finite float, PRECISE only YES / NO ---------- *)
Definition st_pair_ok (kv : str * str) : bool :=
  let '(k, v) := kv in
  if str_eqb k s_TIME_OFFSET then is_ok (parse_float v)
  else if str_eqb k s_PRECISE then is_ok (parse_yes_or_no v) else true.
Definition is_offset (kv : str * str) : bool := str_eqb (fst kv) s_TIME_OFFSET.
Lemma st_step_spec : forall a kv,
  match start_attr a kv with
  | Ok a' => st_pair_ok kv = true /\ is_some (fst a') = is_some (fst a) || is_offset kv
  | Err => st_pair_ok kv = false
  | Panic => False
  end.
Proof.
  intros a [k v]. unfold start_attr, st_pair_ok, is_offset. cbn [fst].
  destruct (str_eqb k s_TIME_OFFSET).
  - destruct (parse_float v) as [x| |] eqn:P; cbn [bind is_ok fst is_some]; [rewrite orb_true_r; auto | reflexivity | exact (parse_float_np _ P)].
  - rewrite orb_false_r. destruct (str_eqb k s_PRECISE).
    + destruct (parse_yes_or_no v) as [b| |] eqn:P; cbn [bind is_ok fst]; [auto | reflexivity | exact (parse_yes_or_no_np _ P)].
    + auto.
Qed.
Lemma fold_st_spec : forall l a,
  match fold_res start_attr l a with
  | Ok a' => forallb st_pair_ok l = true /\ is_some (fst a') = is_some (fst a) || existsb is_offset l
  | Err => forallb st_pair_ok l = false
  | Panic => False
  end.
Proof.
  induction l as [|kv l IH]; intros a; cbn [fold_res forallb existsb].
  - rewrite orb_false_r. auto.
  - pose proof (st_step_spec a kv) as S. destruct (start_attr a kv) as [a1| |]; cbn [bind].
    + destruct S as [S1 S2]. rewrite S1. cbn [andb]. specialize (IH a1). destruct (fold_res start_attr l a1) as [a'| |]; [|exact IH|exact IH].
      destruct IH as [I1 I2]. split; [exact I1|]. rewrite I2, S2, orb_assoc. reflexivity.
    + rewrite S. reflexivity.
    + exact S.
Qed.
Theorem start_accept_iff : forall line,
  is_ok (parse_start line) =
  match tag line pfx_ExtXStart with
  | Ok rest => forallb st_pair_ok (attr_pairs rest) && existsb is_offset (attr_pairs rest)
  | _ => false
  end.
Proof.
  intros line. unfold parse_start. destruct (tag line pfx_ExtXStart) as [rest| |]; cbn [bind]; try reflexivity.
  pose proof (fold_st_spec (attr_pairs rest) (None, false)) as H.
  destruct (fold_res start_attr (attr_pairs rest) (None, false)) as [a| |]; cbn [bind].
  - destruct H as [H1 H2]. cbn [fst is_some orb] in H2. rewrite H1, <- H2. cbn [andb]. destruct (fst a); reflexivity.
  - rewrite H. reflexivity.
  - destruct H.
Qed.

(* ---------- EXT-X-MAP: a URI, and a BYTERANGE (if present) that is a byte range ---------- *)
Definition mp_pair_ok (kv : str * str) : bool :=
  let '(k, v) := kv in
  if str_eqb k s_URI then true else if str_eqb k s_BYTERANGE then is_ok (parse_byte_range (unquote v)) else true.
Definition is_uri (kv : str * str) : bool := str_eqb (fst kv) s_URI.
Lemma mp_step_spec : forall a kv,
  match map_attr a kv with
  | Ok a' => mp_pair_ok kv = true /\ is_some (fst a') = is_some (fst a) || is_uri kv
  | Err => mp_pair_ok kv = false
  | Panic => False
  end.
Proof.
  intros a [k v]. unfold map_attr, mp_pair_ok, is_uri. cbn [fst].
  destruct (str_eqb k s_URI); [cbn [fst is_some]; rewrite orb_true_r; auto|].
  rewrite orb_false_r. destruct (str_eqb k s_BYTERANGE).
  - destruct (parse_byte_range (unquote v)) as [r| |] eqn:P; cbn [bind is_ok fst]; [auto | reflexivity | exact (parse_byte_range_np _ P)].
  - auto.
Qed.
Lemma fold_mp_spec : forall l a,
  match fold_res map_attr l a with
  | Ok a' => forallb mp_pair_ok l = true /\ is_some (fst a') = is_some (fst a) || existsb is_uri l
  | Err => forallb mp_pair_ok l = false
  | Panic => False
  end.
Proof.
  induction l as [|kv l IH]; intros a; cbn [fold_res forallb existsb].
  - rewrite orb_false_r. auto.
  - pose proof (mp_step_spec a kv) as S. destruct (map_attr a kv) as [a1| |]; cbn [bind].
    + destruct S as [S1 S2]. rewrite S1. cbn [andb]. specialize (IH a1). destruct (fold_res map_attr l a1) as [a'| |]; [|exact IH|exact IH].
      destruct IH as [I1 I2]. split; [exact I1|]. rewrite I2, S2, orb_assoc. reflexivity.
    + rewrite S. reflexivity.
    + exact S.
Qed.
Theorem map_accept_iff : forall line,
  is_ok (parse_xmap line) =
  match tag line pfx_ExtXMap with
  | Ok rest => forallb mp_pair_ok (attr_pairs rest) && existsb is_uri (attr_pairs rest)
  | _ => false
  end.
Proof.
  intros line. unfold parse_xmap. destruct (tag line pfx_ExtXMap) as [rest| |]; cbn [bind]; try reflexivity.
  pose proof (fold_mp_spec (attr_pairs rest) (None, None)) as H.
  destruct (fold_res map_attr (attr_pairs rest) (None, None)) as [a| |]; cbn [bind].
  - destruct H as [H1 H2]. cbn [fst is_some orb] in H2. rewrite H1, <- H2. cbn [andb]. destruct (fst a); reflexivity.
  - rewrite H. reflexivity.
  - destruct H.
Qed.
