(* ParsedBuilt.v — every media playlist the parser returns has the invariants the C03 text theorem
   needs (C03Items.built_ok): numbers, explicit byte ranges, durations within the target, and
   per-segment keys that are the derived form of key lists a parse can produce. *)
From hls Require Import Base Float Lex Kinds Types Tags Line Keys Media Master.
From hls.Generated Require Import Tables.
From hls.Spec Require Import KeySpec.
From hls.Proofs Require Import EqFacts KeysProof C06 Build Parse MediaProps C11 C03 C12 MasterText MediaText C03Items.
From Coq Require Import Lia ZifyN ZifyNat.
Open Scope N_scope.

(* ---------- build_loop ---------- *)
Lemma build_loop_built : forall raws i mseq prev out,
  build_loop (map Some raws) i mseq prev = Ok out -> (forall s, In s raws -> sg_explicit s = false) ->
  exists segs, out = map Some segs /\ numbered_from (i + mseq) segs = true /\ ranges_explicit segs = true
    /\ Forall2 (fun sg s0 => sg_keys sg = derive_keys (sg_number sg) (sg_keys s0) /\ sg_inf sg = sg_inf s0) segs raws.
Proof.
  induction raws as [|s raws IH]; intros i mseq prev out H Hex.
  - inversion H. exists []. repeat split. constructor.
  - cbn [map build_loop] in H. rewrite (Hex s (or_introl eq_refl)) in H.
    destruct (i + mseq <? two64) eqn:Elt; [|discriminate]. cbn [bind] in H.
    apply bind_ok in H. destruct H as [rg [Hrg H]]. apply bind_ok in H. destruct H as [t [Ht H]].
    inversion H; subst out. clear H.
    destruct (IH (i + 1) mseq _ t Ht (fun x Hx => Hex x (or_intror Hx))) as [segs [-> [Hn [Hr Hf]]]].
    eexists (_ :: segs). split; [reflexivity|]. split; [|split].
    + cbn [numbered_from sg_number sg_explicit]. rewrite N.eqb_refl, Elt. cbn [negb andb].
      replace (i + mseq + 1) with (i + 1 + mseq) by lia. exact Hn.
    + cbn [ranges_explicit forallb sg_range]. fold (ranges_explicit segs). rewrite Hr, andb_true_r.
      destruct (sg_range s) as [r0|]; [|inversion Hrg; reflexivity].
      apply rmap_ok in Hrg. destruct Hrg as [r1 [Hc ->]]. unfold complete_range in Hc.
      destruct (br_start r0) eqn:Es; [inversion Hc; subst; rewrite Es; reflexivity|].
      destruct prev as [pr|]; [|inversion Hc; reflexivity].
      destruct (N.min (br_end r0 + br_end pr) usize_max <? br_end pr); [discriminate|]. inversion Hc; reflexivity.
    + constructor; [split; reflexivity | exact Hf].
Qed.

(* ---------- the key lists of the segments the state machine collects ---------- *)
Fixpoint last_empty (pe : bool) (Ks : list (list xkey)) : bool :=
  match Ks with [] => pe | K :: r => last_empty (is_nil K) r end.
Lemma chain_snoc : forall Ks pe K, chain_ok pe Ks -> KShape K -> (K = [] -> last_empty pe Ks = true) ->
  chain_ok pe (Ks ++ [K]).
Proof.
  induction Ks as [|K0 Ks IH]; intros pe K Hc Hk Hl.
  - cbn [app chain_ok]. cbn [last_empty] in Hl. repeat split; [exact Hk | exact Hl].
  - cbn [app chain_ok] in *. destruct Hc as [H1 [H2 H3]]. repeat split; [exact H1 | exact H2|].
    apply IH; [exact H3 | exact Hk | exact Hl].
Qed.
Lemma last_empty_all_nil : forall Ks, Forall (fun K : list xkey => K = []) Ks -> last_empty true Ks = true.
Proof.
  assert (G : forall Ks pe, pe = true -> Forall (fun K : list xkey => K = []) Ks -> last_empty pe Ks = true).
  { induction Ks as [|K Ks IH]; intros pe Hpe H; [exact Hpe|]. inversion H; subst. cbn [last_empty]. apply IH; [reflexivity | assumption]. }
  intros Ks H. apply G; [reflexivity | exact H].
Qed.

Lemma key_step_subset : forall ks k x, In x (key_step ks k) -> x = k \/ In x ks.
Proof.
  intros ks [d|] x H; unfold key_step, key_step_gen in H.
  - destruct (find_first (key_hit same_fmt d) ks).
    + apply in_app_or in H. destruct H as [H | [<- | []]]; [right; apply filter_In in H; tauto | left; reflexivity].
    + apply in_app_or in H. destruct H as [H | [<- | []]]; [right; exact H | left; reflexivity].
  - destruct H as [<- | []]. left. reflexivity.
Qed.

Definition kinv (s : pstate) : Prop :=
  (exists h, ps_keys s = keys_after h) /\ Forall stripped (ps_keys s)
  /\ chain_ok true (map sg_keys (rev (ps_segs s)))
  /\ (ps_keys s = [] -> Forall (fun K : list xkey => K = []) (map sg_keys (rev (ps_segs s))))
  /\ Forall (fun sg => Forall stripped (sg_keys sg)) (ps_segs s).
Definition key_item_stripped (l : line) : Prop :=
  match l with LTag (TKey k) => stripped k | _ => True end.

Lemma kinv_keys_shape : forall s, kinv s -> KShape (ps_keys s).
Proof.
  intros s [[h Hh] [Hs _]]. rewrite Hh in *. apply parsed_keys_shape. exact Hs.
Qed.
Lemma step_kinv : forall s l s', kinv s -> key_item_stripped l -> step s l = Ok s' -> kinv s'.
Proof.
  intros s l s' Hk Hl H. pose proof (step_keys s l s' H) as Hkeys.
  destruct Hk as [[h Hh] [Hs [Hc [Hn Hst]]]].
  destruct l as [t| |u].
  - (* tags never touch the segment list; only EXT-X-KEY touches the keys *)
    assert (Hsegs : ps_segs s' = ps_segs s).
    { unfold step in H. destruct (in_kinds (kind_of t) media_rejects); [discriminate|].
      destruct t; cbn [step_tag set_seg set_b] in H;
        repeat match type of H with context [if ?c then _ else _] => destruct c end;
        try discriminate; inversion H; subst; reflexivity. }
    unfold kinv. rewrite Hsegs.
    destruct t; cbn [key_event] in Hkeys; unfold keys_from in Hkeys; cbn [fold_left] in Hkeys;
      try (rewrite Hkeys; repeat split; [exists h; exact Hh | exact Hs | exact Hc | exact Hn | exact Hst]).
    (* TKey *)
    rewrite Hkeys. split; [|split; [|split; [|split]]].
    + exists (h ++ [k]). rewrite Hh. unfold keys_after. rewrite fold_left_app. reflexivity.
    + apply Forall_forall. intros x Hx. apply key_step_subset in Hx. destruct Hx as [-> | Hx]; [exact Hl|].
      rewrite Forall_forall in Hs. apply Hs, Hx.
    + exact Hc.
    + intros E. exfalso. exact (key_step_nonempty _ _ E).
    + exact Hst.
  - inversion H; subst. repeat split; [exists h; exact Hh | exact Hs | exact Hc | exact Hn | exact Hst].
  - (* URI: one more segment, holding the keys in effect *)
    destruct (step_uri_snapshot s u s' H) as [sg [Hsegs [Hsk _]]].
    cbn [key_event] in Hkeys. unfold keys_from in Hkeys. cbn [fold_left] in Hkeys.
    unfold kinv. rewrite Hkeys, Hsegs. cbn [rev]. rewrite map_app. cbn [map]. rewrite Hsk.
    split; [exists h; exact Hh|]. split; [exact Hs|]. split; [|split].
    + apply chain_snoc; [exact Hc | apply (kinv_keys_shape s); repeat split; [exists h; exact Hh | exact Hs | exact Hc | exact Hn | exact Hst]|].
      intros E. apply last_empty_all_nil, Hn, E.
    + intros E. apply Forall_app. split; [apply Hn, E | constructor; [exact E | constructor]].
    + constructor; [rewrite Hsk; exact Hs | exact Hst].
Qed.
Lemma run_lines_kinv : forall ls s s', kinv s -> (forall l, In (Ok l) ls -> key_item_stripped l) ->
  run_lines s ls = Ok s' -> kinv s'.
Proof.
  induction ls as [|r ls IH]; intros s s' Hk Hall H; cbn [run_lines] in H.
  - inversion H; subst. exact Hk.
  - apply bind_ok in H. destruct H as [l [Hr H]]. subst r. apply bind_ok in H. destruct H as [s1 [Hs1 H]].
    apply (IH s1 s'); [|intros y Hy; apply Hall; right; exact Hy | exact H].
    apply (step_kinv s l s1 Hk); [apply Hall; left; reflexivity | exact Hs1].
Qed.
Lemma init_kinv : forall b0, kinv (init_state b0).
Proof.
  intros b0. unfold kinv, init_state. cbn [ps_keys ps_segs rev map]. repeat split.
  - exists []. reflexivity.
  - constructor.
  - constructor.
  - constructor.
Qed.

(* ---------- the builder the state machine fills ---------- *)
Definition binv (b : mbuilder) : Prop :=
  b_excess b = None /\ match b_target b with Some t => t mod 1000000000 = 0 | None => True end.
Lemma step_binv : forall s l s', binv (ps_b s) -> step s l = Ok s' -> binv (ps_b s').
Proof.
  intros s l s' [He Ht] H. destruct l as [t| |u]; unfold step in H.
  - destruct (in_kinds (kind_of t) media_rejects); [discriminate|].
    destruct t; cbn [step_tag set_seg set_b] in H;
      repeat match type of H with context [if ?c then _ else _] => destruct c end;
      try discriminate; inversion H; subst; cbn [ps_b b_excess b_target]; split; try assumption.
    apply N.mod_mul. lia.
  - inversion H; subst. split; assumption.
  - destruct (sa_inf (ps_seg s)); cbn [of_opt bind] in H; [|discriminate]. inversion H; subst. split; assumption.
Qed.
Lemma run_lines_binv : forall ls s s', binv (ps_b s) -> run_lines s ls = Ok s' -> binv (ps_b s').
Proof.
  induction ls as [|r ls IH]; intros s s' Hb H; cbn [run_lines] in H.
  - inversion H; subst. exact Hb.
  - apply bind_ok in H. destruct H as [l [Hr H]]. subst r. apply bind_ok in H. destruct H as [s1 [Hs1 H]].
    apply (IH s1 s'); [apply (step_binv s l s1 Hb Hs1) | exact H].
Qed.

(* ---------- the theorem ---------- *)
Definition keys_stripped_items (ls : list (res line)) : Prop := forall l, In (Ok l) ls -> key_item_stripped l.

Lemma build_indep : forall b p, build b = Ok p -> mp_indep p = odef (b_indep b) false.
Proof.
  intros b p H. unfold build in H.
  destruct (match b_target b with Some t => validate_segments b t | None => true end); [|discriminate].
  apply bind_ok in H. destruct H as [slots [_ H]].
  destruct (match present slots with f :: _ => _ | [] => true end); [|discriminate].
  apply bind_ok in H. destruct H as [slots' [_ H]].
  destruct (forallb is_some slots'); [|discriminate].
  apply bind_ok in H. destruct H as [t [_ H]]. inversion H. reflexivity.
Qed.
Lemma keys_raw_of : forall segs raws,
  Forall2 (fun sg s0 => sg_keys sg = derive_keys (sg_number sg) (sg_keys s0) /\ sg_inf sg = sg_inf s0) segs raws ->
  Forall (fun sg => Forall stripped (sg_keys sg)) raws ->
  keys_from_raw segs (map sg_keys raws).
Proof.
  induction 1 as [|sg s0 segs raws [Hk _] _ IH]; intros Hs; [constructor|].
  inversion Hs; subst. cbn [map]. constructor; [split; assumption | apply IH; assumption].
Qed.

Theorem parsed_built_ok : forall ls p, items_wf_all ls -> keys_stripped_items ls ->
  parse_items mb_default ls = Ok p -> exists raws, built_ok p raws.
Proof.
  intros ls p Hwf Hks H.
  destruct (parse_items_inv _ _ _ H) as [s [Hr [Hpart Hf]]].
  assert (Hi : Inv s) by (eapply run_lines_inv; [apply init_inv | exact Hwf | exact Hr]).
  pose proof (run_lines_kinv ls (init_state mb_default) s (init_kinv mb_default) Hks Hr) as Hk.
  assert (Hb : binv (ps_b s)) by (apply (run_lines_binv ls (init_state mb_default) s); [split; [reflexivity | exact I] | exact Hr]).
  destruct Hb as [Hex Htg]. destruct Hk as [_ [_ [Hchain [_ Hstr]]]].
  unfold finish_media in Hf. rewrite Hpart in Hf.
  pose proof Hf as Hbuild. pose proof (build_indep _ _ Hbuild) as Hind0. cbn [b_indep] in Hind0.
  apply build_ok_inv in Hf. cbn [b_target b_segments b_mseq b_excess] in Hf.
  destruct Hf as [t [slots [slots' [Ht [Hs [Hv [Hl [Hc [Hp [Hm [Htt _]]]]]]]]]]].
  inversion Hs; subst slots. clear Hs.
  destruct Hi as [Hsegs _].
  assert (Hexp : forall x, In x (rev (ps_segs s)) -> sg_explicit x = false).
  { intros x Hx. apply Hsegs. apply in_rev. exact Hx. }
  destruct (build_loop_built _ _ _ _ _ Hl Hexp) as [segs [-> [Hnum [Hrng Hkeys]]]].
  rewrite present_map_some in Hp.
  assert (Hstr' : Forall (fun sg => Forall stripped (sg_keys sg)) (rev (ps_segs s))).
  { apply Forall_forall. intros x Hx. rewrite Forall_forall in Hstr. apply Hstr, in_rev, Hx. }
  pose proof (keys_raw_of _ _ Hkeys Hstr') as Hkr.
  exists (map sg_keys (rev (ps_segs s))). constructor.
  - rewrite Htt. rewrite Ht in Htg. exact Htg.
  - rewrite Hp, Hm. cbn [N.add] in Hnum. exact Hnum.
  - rewrite Hp. exact Hrng.
  - rewrite Hp. apply forallb_forall. intros sg Hin. apply N.leb_le.
    pose proof (build_durations _ _ Hbuild sg) as Hd. rewrite Hp in Hd. specialize (Hd Hin).
    cbn [b_excess] in Hd. rewrite Hex in Hd. exact Hd.
  - intros Hind. rewrite Hp.
    unfold validate_segments in Hv. cbn [b_segments b_indep b_excess] in Hv. rewrite present_map_some in Hv.
    apply andb_true_iff in Hv. destruct Hv as [Hv _]. apply andb_true_iff in Hv. destruct Hv as [Hv _].
    rewrite Hind0 in Hind. destruct (b_indep (ps_b s)) as [[|]|]; try discriminate Hind.
    rewrite indep_ok_alt in *. destruct (derive_concat _ _ Hkr) as [E1 E2]. rewrite E1, E2. exact Hv.
  - rewrite Hp. exact Hkr.
  - exact Hchain.
Qed.

(* ---------- from text ---------- *)
Lemma parsed_key_stripped : forall s k, parse_decryption_key s = Ok k -> strip_derived k = k.
Proof.
  intros s k H. unfold parse_decryption_key in H. apply bind_ok in H. destruct H as [a [Ha H]].
  assert (Hiv : match ka_iv a with Some (IvNumber _) => False | _ => True end).
  { assert (G : forall l a0 a1, match ka_iv a0 with Some (IvNumber _) => False | _ => True end ->
                fold_res key_attr l a0 = Ok a1 -> match ka_iv a1 with Some (IvNumber _) => False | _ => True end).
    { induction l as [|[k0 v] l IH]; intros a0 a1 H0 Hf; cbn [fold_res] in Hf; [inversion Hf; subst; exact H0|].
      apply bind_ok in Hf. destruct Hf as [a2 [H2 Hf]]. apply (IH a2 a1); [|exact Hf].
      unfold key_attr in H2.
      repeat match type of H2 with
      | (if ?c then _ else _) = _ => destruct c
      | (let u := _ in _) = _ => cbv zeta in H2
      end;
      try (apply bind_ok in H2; let x := fresh "x" in let Hx := fresh "Hx" in destruct H2 as [x [Hx H2]]);
      inversion H2; subst; cbn [ka_iv]; try exact H0.
      unfold parse_iv in Hx.
      destruct (match strip_prefix s_0x v with Some r => Some r | None => strip_prefix s_0X v end) as [body|]; [|discriminate].
      destruct (byte_len body =? 32); [|discriminate]. destruct (hex_decode body); [|discriminate]. inversion Hx. exact I. }
    exact (G _ {| ka_method := None; ka_uri := None; ka_iv := None; ka_format := None; ka_versions := None |} a I Ha). }
  destruct (ka_method a); [|discriminate]. cbn [of_opt bind] in H. destruct (ka_uri a); [|discriminate].
  cbn [of_opt bind] in H. inversion H; subst. unfold strip_derived. cbn [k_iv].
  destruct (ka_iv a) as [[bs|nn|]|]; try reflexivity. contradiction.
Qed.
Lemma lines_of_keys_stripped : forall input, keys_stripped_items (lines_of input).
Proof.
  intros input l Hin. unfold lines_of in Hin. revert l Hin. generalize (clean_lines input).
  fix IH 1. intros ls l Hin. destruct ls as [|x rest]; cbn [items] in Hin; [destruct Hin|].
  destruct (starts_with pairing_prefix x).
  - destruct rest as [|u rest'].
    + destruct missing_uri_is_error; cbn [In] in Hin; [destruct Hin as [H|H]; [discriminate|destruct H] | destruct Hin].
    + cbn [In] in Hin. destruct Hin as [H | Hin]; [|exact (IH rest' l Hin)].
      apply rmap_ok in H. destruct H as [v [_ ->]]. exact I.
  - destruct (starts_with s_hashEXT x).
    + cbn [In] in Hin. destruct Hin as [H | Hin]; [|exact (IH rest l Hin)].
      apply rmap_ok in H. destruct H as [t [Ht ->]].
      destruct (classify x); cbn [parse_kind] in Ht;
        try (apply rmap_ok in Ht; destruct Ht as [a [Ha ->]]; try exact I).
      * (* EXT-X-KEY *)
        cbn [key_item_stripped]. unfold parse_xkey in Ha. apply bind_ok in Ha. destruct Ha as [rest0 [_ Ha]].
        destruct (is_method_none (attr_pairs rest0)); [inversion Ha; exact I|].
        apply rmap_ok in Ha. destruct Ha as [k [Hk ->]]. cbn [stripped]. apply (parsed_key_stripped _ _ Hk).
      * destruct (is_ok (tag x pfx_VariantStream_EXTXIFRAME)); [|discriminate].
        apply rmap_ok in Ht. destruct Ht as [a [Ha ->]]. exact I.
      * inversion Ht. exact I.
    + destruct (starts_with [35] x); cbn [In] in Hin;
        (destruct Hin as [H | Hin]; [inversion H; exact I | exact (IH rest l Hin)]).
Qed.

Theorem parsed_media_built : forall s p, parse_media s = Ok p -> exists raws, built_ok p raws.
Proof.
  intros s p H. unfold parse_media, parse_media_with in H. apply bind_ok in H. destruct H as [rest [_ H]].
  apply (parsed_built_ok (lines_of rest) p); [|apply lines_of_keys_stripped | exact H].
  intros l Hl. apply (lines_of_wf rest l Hl).
Qed.

(* C03 for values obtained by parsing: the written text of every well-formed parse result parses to
   a value with the same observable content (keys per segment as a set) *)
Theorem parsed_media_roundtrip : forall s p, parse_media s = Ok p -> wf_media p = true ->
  parse_media (print_media p) = Ok (reread p)
  /\ mp_target (reread p) = mp_target p /\ mp_mseq (reread p) = mp_mseq p /\ mp_dseq (reread p) = mp_dseq p
  /\ mp_ptype (reread p) = mp_ptype p /\ mp_iframes (reread p) = mp_iframes p /\ mp_indep (reread p) = mp_indep p
  /\ mp_start (reread p) = mp_start p /\ mp_endlist (reread p) = mp_endlist p /\ mp_unknown (reread p) = mp_unknown p
  /\ Forall2 seg_same (mp_segs (reread p)) (mp_segs p).
Proof.
  intros s p H Hwf. destruct (parsed_media_built s p H) as [raws Hb].
  split; [apply (media_text_roundtrip p raws Hwf Hb) | apply (reread_same p raws Hb)].
Qed.
