(* Proofs for C06: instantiation of KeysProof at the model's key type, and the parser
   state machine carrying exactly `keys_after` of the key events read so far. *)
From hls Require Import Base Float Lex Kinds Types Tags Line Keys Media.
From hls.Generated Require Import Tables.
From hls.Spec Require Import KeySpec.
From hls.Proofs Require Import EqFacts KeysProof.

Lemma keys_after_unfold : forall h, keys_after h = keys_after_gen same_fmt key_eqb h.
Proof. reflexivity. Qed.

Lemma spec_agrees : forall h x,
  KeySpec.InEffect h x <-> KeysProof.InEffect same_fmt h x.
Proof. intros h [k|]; simpl; tauto. Qed.

Lemma keys_in_effect : forall h x, In x (keys_after h) <-> KeySpec.InEffect h x.
Proof.
  intros. rewrite spec_agrees, keys_after_unfold.
  apply run_in_effect; first [exact same_fmt_refl | exact same_fmt_sym | exact same_fmt_trans | exact key_eqb_eq].
Qed.

Lemma one_key_per_format : forall h a b,
  In (Some a) (keys_after h) -> In (Some b) (keys_after h) -> same_fmt a b = true -> a = b.
Proof.
  intros h a b. rewrite keys_after_unfold.
  apply run_one_per_format; first [exact same_fmt_refl | exact same_fmt_sym | exact same_fmt_trans | exact key_eqb_eq].
Qed.

Lemma marker_alone : forall h, In None (keys_after h) -> keys_after h = [None].
Proof.
  intros h. rewrite keys_after_unfold.
  apply run_marker_alone; first [exact same_fmt_refl | exact same_fmt_sym | exact same_fmt_trans | exact key_eqb_eq].
Qed.

Lemma keys_in_tag_order : forall h, subseq (keys_after h) h.
Proof. intros h. rewrite keys_after_unfold. apply run_subseq. Qed.

(* ---------- the parser carries keys_after of the events read so far ---------- *)
Definition keys_from (ks : list xkey) (h : list xkey) : list xkey := fold_left key_step h ks.

Lemma step_keys : forall s l s', step s l = Ok s' ->
  ps_keys s' = keys_from (ps_keys s) (key_event l).
Proof.
  intros s l s' H. destruct l as [t| |u]; unfold step in H.
  - destruct (in_kinds (kind_of t) media_rejects); [discriminate|].
    destruct t; cbn [step_tag set_seg set_b] in H;
      repeat match type of H with context [if ?c then _ else _] => destruct c end;
      try discriminate; inversion H; subst; reflexivity.
  - inversion H; reflexivity.
  - destruct (sa_inf (ps_seg s)); cbn [of_opt bind] in H; [|discriminate]. inversion H; reflexivity.
Qed.

Lemma keys_from_app : forall ks h1 h2, keys_from ks (h1 ++ h2) = keys_from (keys_from ks h1) h2.
Proof. intros. unfold keys_from. apply fold_left_app. Qed.

Lemma run_lines_keys : forall ls s s', run_lines s (map Ok ls) = Ok s' ->
  ps_keys s' = keys_from (ps_keys s) (key_hist ls).
Proof.
  induction ls as [|l ls IH]; simpl; intros s s' H.
  - inversion H; reflexivity.
  - destruct (step s l) as [s1| |] eqn:E; simpl in H; try discriminate.
    rewrite (IH _ _ H), (step_keys _ _ _ E). unfold key_hist at 2. simpl.
    rewrite keys_from_app. reflexivity.
Qed.

(* the keys a segment is created with are the keys held when its URI line is read; the
   keys a map is stored with are the keys held when the MAP line is read *)
Lemma step_uri_snapshot : forall s u s', step s (LUri u) = Ok s' ->
  exists sg, ps_segs s' = sg :: ps_segs s /\ sg_keys sg = ps_keys s /\ sg_uri sg = u.
Proof.
  intros s u s' H. unfold step in H. destruct (sa_inf (ps_seg s)); cbn [of_opt bind] in H; [|discriminate].
  inversion H; subst; simpl. eexists; split; [reflexivity|]. simpl. tauto.
Qed.
Lemma step_map_snapshot : forall s m s', step s (LTag (TMap m)) = Ok s' ->
  exists m', sa_map (ps_seg s') = Some m' /\ map_keys m' = ps_keys s /\ map_uri m' = map_uri m.
Proof.
  intros s m s' H. unfold step in H. cbn [kind_of] in H.
  destruct (in_kinds K_ExtXMap media_rejects); [discriminate|].
  cbn [step_tag set_seg] in H. inversion H; subst; simpl. eexists; split; [reflexivity|]. simpl. tauto.
Qed.
