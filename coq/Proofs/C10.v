(* Proofs for C10: the version line, and the required version as a maximum over features. *)
From hls Require Import Base Float Lex Kinds Types Tags Line Keys Media Master.
From hls.Generated Require Import Tables.
From hls.Proofs Require Import EqFacts Build Parse Lexical.
From Coq Require Import Lia.
Open Scope N_scope.

(* ---------- maxl ---------- *)
Lemma fold_max_ge_acc : forall l a, a <= fold_left N.max l a.
Proof. induction l as [|x l IH]; simpl; intros a; [lia|]. specialize (IH (N.max a x)). lia. Qed.
Lemma fold_max_ge_in : forall l a x, In x l -> x <= fold_left N.max l a.
Proof.
  induction l as [|y l IH]; simpl; intros a x H; [tauto|].
  destruct H as [-> | H]; [|apply IH; assumption].
  pose proof (fold_max_ge_acc l (N.max a x)). lia.
Qed.
Lemma maxl_ge : forall l x, In x l -> x <= maxl l.
Proof. intros. unfold maxl. apply fold_max_ge_in. assumption. Qed.
Lemma maxl_ge1 : forall l, 1 <= maxl l.
Proof. intros. unfold maxl. apply fold_max_ge_acc. Qed.
Lemma fold_max_in : forall l a, fold_left N.max l a = a \/ In (fold_left N.max l a) l.
Proof.
  induction l as [|x l IH]; simpl; intros a; [left; reflexivity|].
  destruct (IH (N.max a x)) as [H | H].
  - destruct (N.max_spec a x) as [[_ E] | [_ E]].
    + right. left. rewrite H. symmetry. exact E.
    + left. rewrite H. exact E.
  - right. right. exact H.
Qed.
Lemma maxl_in : forall l, maxl l = 1 \/ In (maxl l) l.
Proof. intros. unfold maxl. apply fold_max_in. Qed.

(* ---------- the version line ---------- *)
Theorem version_line_spec : forall rv,
  (rv = 1 -> version_line rv = []) /\
  (rv <> 1 -> version_line rv = [pfx_ExtXVersion ++ print_protocol_version rv]).
Proof.
  intros rv. unfold version_line. destruct (N.eqb_spec rv 1); split; intros; try reflexivity; congruence.
Qed.

Definition is_version_line (l : str) : bool := starts_with pfx_ExtXVersion l.

Lemma not_version : forall p rest, incomparable pfx_ExtXVersion p = true -> is_version_line (p ++ rest) = false.
Proof.
  intros p rest H. unfold incomparable in H. apply andb_true_iff in H. destruct H as [Ha Hb].
  apply negb_true_iff in Ha, Hb. apply starts_with_app_false; assumption.
Qed.
Ltac nv := apply not_version; vm_compute; reflexivity.

Lemma xkey_line_nv : forall k, is_version_line (print_xkey k) = false.
Proof. intros. unfold print_xkey. nv. Qed.

Lemma key_events_nv : forall ev, forallb (fun l => negb (is_version_line l)) (map print_xkey ev) = true.
Proof.
  induction ev as [|k ev IH]; [reflexivity|]. cbn [map forallb]. rewrite xkey_line_nv, IH. reflexivity.
Qed.

Definition uri_ok (s : Segment) : bool := negb (is_version_line (sg_uri s)).
Lemma segment_lines_nv : forall s, uri_ok s = true -> forallb (fun l => negb (is_version_line l)) (segment_lines s) = true.
Proof.
  intros s Hu. unfold segment_lines, olist. rewrite !forallb_app.
  repeat (apply andb_true_iff; split).
  - destruct (sg_map s); [|reflexivity]. cbn [forallb]. unfold print_xmap. rewrite not_version by (vm_compute; reflexivity). reflexivity.
  - destruct (sg_range s); [|reflexivity]. cbn [forallb]. unfold print_xbyterange. rewrite not_version by (vm_compute; reflexivity). reflexivity.
  - destruct (sg_daterange s); [|reflexivity]. cbn [forallb]. unfold print_daterange. rewrite not_version by (vm_compute; reflexivity). reflexivity.
  - destruct (sg_disc s); [|reflexivity]. vm_compute. reflexivity.
  - destruct (sg_pdt s); [|reflexivity]. cbn [forallb]. unfold print_pdt. rewrite not_version by (vm_compute; reflexivity). reflexivity.
  - unfold print_extinf. rewrite not_version by (vm_compute; reflexivity). reflexivity.
  - exact Hu.
  - reflexivity.
Qed.
Lemma segments_lines_nv : forall segs avail, forallb uri_ok segs = true ->
  forallb (fun l => negb (is_version_line l)) (segments_lines avail segs) = true.
Proof.
  induction segs as [|s segs IH]; simpl; intros avail H; [reflexivity|].
  apply andb_true_iff in H. destruct H as [Hs Hr].
  destruct (segment_key_events avail (sg_keys s)) as [a ev].
  rewrite !forallb_app, key_events_nv, (segment_lines_nv _ Hs), (IH _ Hr). reflexivity.
Qed.

Lemma forallb_one : forall l, is_version_line l = false -> forallb (fun l => negb (is_version_line l)) [l] = true.
Proof. intros l H. cbn [forallb]. rewrite H. reflexivity. Qed.

Theorem media_body_no_version_line : forall p,
  forallb uri_ok (mp_segs p) = true -> forallb (fun u => negb (is_version_line u)) (mp_unknown p) = true ->
  forallb (fun l => negb (is_version_line l)) (media_body_lines p) = true.
Proof.
  intros p Hu Hk. unfold media_body_lines, media_header_lines. rewrite !forallb_app.
  rewrite (segments_lines_nv _ [] Hu), Hk.
  rewrite forallb_one by nv.
  assert (H1 : forallb (fun l => negb (is_version_line l)) (if mp_mseq p =? 0 then [] else [pfx_ExtXMediaSequence ++ print_uint (mp_mseq p)]) = true)
    by (destruct (mp_mseq p =? 0); [reflexivity | apply forallb_one; nv]).
  assert (H2 : forallb (fun l => negb (is_version_line l)) (if mp_dseq p =? 0 then [] else [pfx_ExtXDiscontinuitySequence ++ print_uint (mp_dseq p)]) = true)
    by (destruct (mp_dseq p =? 0); [reflexivity | apply forallb_one; nv]).
  assert (H3 : forallb (fun l => negb (is_version_line l)) (olist (mp_ptype p) print_playlist_type) = true)
    by (destruct (mp_ptype p); [apply forallb_one; unfold print_playlist_type; nv | reflexivity]).
  assert (H4 : forallb (fun l => negb (is_version_line l)) (if mp_iframes p then [pfx_ExtXIFramesOnly] else []) = true)
    by (destruct (mp_iframes p); [vm_compute; reflexivity | reflexivity]).
  assert (H5 : forallb (fun l => negb (is_version_line l)) (if mp_indep p then [pfx_ExtXIndependentSegments] else []) = true)
    by (destruct (mp_indep p); [vm_compute; reflexivity | reflexivity]).
  assert (H6 : forallb (fun l => negb (is_version_line l)) (olist (mp_start p) print_start) = true)
    by (destruct (mp_start p); [apply forallb_one; unfold print_start; nv | reflexivity]).
  assert (H7 : forallb (fun l => negb (is_version_line l)) (if mp_endlist p then [pfx_ExtXEndList] else []) = true)
    by (destruct (mp_endlist p); [vm_compute; reflexivity | reflexivity]).
  repeat (apply andb_true_iff; split); first [reflexivity | assumption].
Qed.

(* ---------- the required version bounds every feature's minimum ---------- *)
Lemma segment_rv_le : forall p s, In s (mp_segs p) -> segment_rv s <= media_rv p.
Proof.
  intros p s H. unfold media_rv.
  eapply N.le_trans; [|apply maxl_ge; right; right; right; right; right; right; right; right; left; reflexivity].
  apply maxl_ge. apply in_map. assumption.
Qed.

Theorem rv_sound_media : forall p s, In s (mp_segs p) ->
  (forall d, In (Some d) (sg_keys s) -> iv_is_some (k_iv d) = true -> 2 <= media_rv p)
  /\ ((inf_dur (sg_inf s)) mod 1000000000 <> 0 -> 3 <= media_rv p)
  /\ (sg_range s <> None -> 4 <= media_rv p)
  /\ (forall d, In (Some d) (sg_keys s) -> (is_some (k_format d) || is_some (k_versions d)) = true -> 5 <= media_rv p)
  /\ (sg_map s <> None -> 6 <= media_rv p).
Proof.
  intros p s Hs. pose proof (segment_rv_le p s Hs) as Hle.
  assert (Hkey : forall d, In (Some d) (sg_keys s) -> key_rv d <= segment_rv s).
  { intros d Hd. unfold segment_rv.
    eapply N.le_trans; [|apply maxl_ge; left; reflexivity].
    apply (maxl_ge (map xkey_rv (sg_keys s)) (xkey_rv (Some d))). apply in_map. assumption. }
  repeat split.
  - intros d Hd Hiv. specialize (Hkey d Hd). unfold key_rv in Hkey. rewrite Hiv in Hkey.
    destruct (is_some (k_format d) || is_some (k_versions d)); lia.
  - intros Hf. assert (3 <= segment_rv s); [|lia]. unfold segment_rv.
    eapply N.le_trans; [|apply maxl_ge; do 6 right; left; reflexivity].
    unfold extinf_rv. apply N.eqb_neq in Hf. rewrite Hf. lia.
  - intros Hr. assert (4 <= segment_rv s); [|lia]. unfold segment_rv.
    eapply N.le_trans; [|apply maxl_ge; right; right; left; reflexivity].
    destruct (sg_range s); [unfold rv_ExtXByteRange_req; lia | congruence].
  - intros d Hd Hf. specialize (Hkey d Hd). unfold key_rv in Hkey. rewrite Hf in Hkey. lia.
  - intros Hm. assert (6 <= segment_rv s); [|lia]. unfold segment_rv.
    eapply N.le_trans; [|apply maxl_ge; right; left; reflexivity].
    destruct (sg_map s); [unfold rv_ExtXMap_req; lia | congruence].
Qed.

Theorem rv_sound_iframes : forall p, mp_iframes p = true -> 4 <= media_rv p.
Proof.
  intros p H. unfold media_rv.
  eapply N.le_trans; [|apply maxl_ge; do 4 right; left; reflexivity]. rewrite H. unfold rv_ExtXIFramesOnly_req. lia.
Qed.

(* not inflated: the required version is 1 or is demanded by a feature that is present *)
Lemma key_rv_cases : forall d, key_rv d = 1 \/ (key_rv d = 2 /\ iv_is_some (k_iv d) = true)
  \/ (key_rv d = 5 /\ (is_some (k_format d) || is_some (k_versions d)) = true).
Proof.
  intros d. unfold key_rv. destruct (is_some (k_format d) || is_some (k_versions d)); [right; right; tauto|].
  destruct (iv_is_some (k_iv d)); [right; left; tauto | left; reflexivity].
Qed.

Theorem rv_tight_segment : forall s,
  segment_rv s = 1
  \/ (segment_rv s = 2 /\ exists d, In (Some d) (sg_keys s) /\ iv_is_some (k_iv d) = true)
  \/ (segment_rv s = 3 /\ (inf_dur (sg_inf s)) mod 1000000000 <> 0)
  \/ (segment_rv s = 4 /\ sg_range s <> None)
  \/ (segment_rv s = 5 /\ exists d, In (Some d) (sg_keys s) /\ (is_some (k_format d) || is_some (k_versions d)) = true)
  \/ (segment_rv s = 6 /\ sg_map s <> None).
Proof.
  intros s. remember (segment_rv s) as r eqn:Er. unfold segment_rv in Er.
  match type of Er with _ = maxl ?l => destruct (maxl_in l) as [H1 | Hin] end;
    rewrite <- Er in *; [left; exact H1|].
  simpl in Hin. destruct Hin as [H | [H | [H | [H | [H | [H | [H | []]]]]]]].
  - (* keys *)
    destruct (maxl_in (map xkey_rv (sg_keys s))) as [E | E].
    + left. congruence.
    + rewrite H in E. apply in_map_iff in E. destruct E as [k [Ek Hk]].
      destruct k as [d|]; [|left; simpl in Ek; congruence]. simpl in Ek.
      destruct (key_rv_cases d) as [C | [[C Hiv] | [C Hf]]].
      * left. congruence.
      * right. left. split; [congruence | eauto].
      * right. right. right. right. left. split; [congruence | eauto].
  - destruct (sg_map s); [|left; congruence]. do 5 right. split; [unfold rv_ExtXMap_req in H; congruence | discriminate].
  - destruct (sg_range s); [|left; congruence]. do 3 right. left. split; [unfold rv_ExtXByteRange_req in H; congruence | discriminate].
  - left. destruct (sg_daterange s); unfold rv_ExtXDateRange_req in H; congruence.
  - left. destruct (sg_disc s); unfold rv_ExtXDiscontinuity_req in H; congruence.
  - left. destruct (sg_pdt s); unfold rv_ExtXProgramDateTime_req in H; congruence.
  - unfold extinf_rv in H. destruct (N.eqb_spec (inf_dur (sg_inf s) mod 1000000000) 0); [left; congruence|].
    right. right. left. split; [congruence | assumption].
Qed.

(* ---------- master playlists ---------- *)
Theorem rv_sound_master : forall p,
  (forall m i, In m (ma_media p) -> xm_instream m = Some i -> 4 <= i -> 7 <= master_rv p)
  /\ (forall k, In k (ma_skeys p) -> key_rv k <= master_rv p).
Proof.
  intros p. split.
  - intros m i Hm Hi H4. unfold master_rv.
    eapply N.le_trans; [|apply maxl_ge; right; right; left; reflexivity].
    eapply N.le_trans; [|apply maxl_ge; apply in_map; exact Hm].
    unfold xmedia_rv. rewrite Hi. destruct (i <? 4) eqn:E; [apply N.ltb_lt in E; lia | lia].
  - intros k Hk. unfold master_rv.
    eapply N.le_trans; [|apply maxl_ge; do 5 right; left; reflexivity].
    apply maxl_ge. apply in_map. assumption.
Qed.
