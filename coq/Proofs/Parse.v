(* Parse.v — invariants of the media parser state machine over arbitrary item lists, and
   well-formedness of the items the line layer produces. *)
From hls Require Import Base Float Lex Kinds Types Tags Line Keys Media.
From hls.Generated Require Import Tables.
From hls.Proofs Require Import EqFacts Build.
From Coq Require Import Lia ZifyN ZifyBool.
Open Scope N_scope.

(* ---------- items produced by the line layer ---------- *)
Definition line_wf (l : line) : Prop :=
  match l with LTag (TByteRange r) => br_end r <= usize_max | _ => True end.

Lemma parse_byte_range_bounded : forall s r, parse_byte_range s = Ok r -> br_end r <= usize_max.
Proof.
  intros s r H. unfold parse_byte_range in H.
  destruct (splitn2 64 s) as [l st].
  apply bind_ok in H. destruct H as [len [_ H]].
  apply bind_ok in H. destruct H as [start [_ H]].
  match type of H with (if ?c then _ else _) = _ => destruct c eqn:E end; [|discriminate].
  inversion H; subst; simpl. unfold usize_max. lia.
Qed.

Lemma rmap_ok : forall A B (f : A -> B) r b, rmap f r = Ok b -> exists a, r = Ok a /\ b = f a.
Proof. intros A B f [a| |] b H; simpl in H; try discriminate. inversion H. eauto. Qed.

Lemma parse_kind_wf : forall k l t, parse_kind k l = Ok t -> line_wf (LTag t).
Proof.
  intros k l t H.
  destruct k; cbn [parse_kind] in H;
    try (apply rmap_ok in H; destruct H as [a [Ha ->]]; exact I).
  - (* byte range *)
    apply rmap_ok in H. destruct H as [r [Hr ->]]. simpl.
    unfold parse_xbyterange in Hr. apply bind_ok in Hr. destruct Hr as [rest [_ Hr]].
    eapply parse_byte_range_bounded; eassumption.
  - (* variant *)
    destruct (is_ok (tag l pfx_VariantStream_EXTXIFRAME)); [|discriminate].
    apply rmap_ok in H. destruct H as [a [Ha ->]]. exact I.
  - inversion H. exact I.
Qed.

Lemma items_wf : forall ls l, In (Ok l) (items ls) -> line_wf l.
Proof.
  fix IH 1. intros ls l Hin. destruct ls as [|x rest]; cbn [items] in Hin; [destruct Hin|].
  destruct (starts_with pairing_prefix x).
  - destruct rest as [|u rest'].
    + destruct missing_uri_is_error; cbn [In] in Hin; [destruct Hin as [H|H]; [discriminate|destruct H] | destruct Hin].
    + cbn [In] in Hin. destruct Hin as [H | Hin]; [|exact (IH rest' l Hin)].
      apply rmap_ok in H. destruct H as [v [_ ->]]. exact I.
  - destruct (starts_with s_hashEXT x).
    + cbn [In] in Hin. destruct Hin as [H | Hin]; [|exact (IH rest l Hin)].
      apply rmap_ok in H. destruct H as [t [Ht ->]]. eapply parse_kind_wf; eassumption.
    + destruct (starts_with [35] x); cbn [In] in Hin;
        (destruct Hin as [H | Hin]; [inversion H; exact I | exact (IH rest l Hin)]).
Qed.

Lemma lines_of_wf : forall input l, In (Ok l) (lines_of input) -> line_wf l.
Proof. intros. eapply items_wf; eassumption. Qed.

(* ---------- state invariant ---------- *)
Definition acc_bounded (a : seg_acc) : Prop :=
  match sa_range a with Some r => br_end r <= usize_max | None => True end.
Definition Inv (s : pstate) : Prop :=
  (forall sg, In sg (ps_segs s) -> sg_explicit sg = false /\ seg_bounded sg) /\ acc_bounded (ps_seg s).

Lemma init_inv : forall b0, Inv (init_state b0).
Proof. intros. split; [simpl; tauto | exact I]. Qed.

Lemma step_inv : forall s l s', Inv s -> line_wf l -> step s l = Ok s' -> Inv s'.
Proof.
  intros s l s' [Hsegs Hacc] Hwf H. destruct l as [t| |u]; unfold step in H.
  - destruct (in_kinds (kind_of t) media_rejects); [discriminate|].
    destruct t; cbn [step_tag set_seg set_b] in H;
      repeat match type of H with context [if ?c then _ else _] => destruct c end;
      try discriminate; inversion H; subst; clear H; split; simpl; auto.
  - inversion H; subst. split; assumption.
  - destruct (sa_inf (ps_seg s)) as [i|]; cbn [of_opt bind] in H; [|discriminate].
    inversion H; subst; clear H. split; [|exact I].
    simpl. intros sg [<- | Hin]; [|auto].
    split; [reflexivity|]. unfold seg_bounded; simpl. exact Hacc.
Qed.

Lemma run_lines_inv : forall ls s s', Inv s ->
  (forall l, In (Ok l) ls -> line_wf l) -> run_lines s ls = Ok s' -> Inv s'.
Proof.
  induction ls as [|r ls IH]; simpl; intros s s' Hi Hwf H.
  - inversion H; subst; assumption.
  - destruct r as [l| |]; simpl in H; try discriminate.
    destruct (step s l) as [s1| |] eqn:E; simpl in H; try discriminate.
    eapply IH; [| |eassumption].
    + eapply step_inv; [eassumption | apply Hwf; left; reflexivity | eassumption].
    + intros l' Hin. apply Hwf. right; assumption.
Qed.

(* ---------- the fold splits at any point ---------- *)
Lemma run_lines_app : forall l1 l2 s,
  run_lines s (l1 ++ l2) = bind (run_lines s l1) (fun s' => run_lines s' l2).
Proof.
  induction l1 as [|r l1 IH]; simpl; intros l2 s; [reflexivity|].
  destruct r as [l| |]; simpl; try reflexivity.
  destruct (step s l) as [s1| |]; simpl; try reflexivity. apply IH.
Qed.

(* segments only ever grow, at the front of the (reversed) list *)
Lemma step_segs_grow : forall s l s', step s l = Ok s' -> exists new, ps_segs s' = new ++ ps_segs s.
Proof.
  intros s l s' H. destruct l as [t| |u]; unfold step in H.
  - destruct (in_kinds (kind_of t) media_rejects); [discriminate|].
    destruct t; cbn [step_tag set_seg set_b] in H;
      repeat match type of H with context [if ?c then _ else _] => destruct c end;
      try discriminate; inversion H; subst; exists []; reflexivity.
  - inversion H; subst. exists []; reflexivity.
  - destruct (sa_inf (ps_seg s)); cbn [of_opt bind] in H; [|discriminate].
    inversion H; subst. eexists [_]. reflexivity.
Qed.
Lemma run_lines_segs_grow : forall ls s s', run_lines s ls = Ok s' -> exists new, ps_segs s' = new ++ ps_segs s.
Proof.
  induction ls as [|r ls IH]; simpl; intros s s' H.
  - inversion H; subst. exists []; reflexivity.
  - destruct r as [l| |]; simpl in H; try discriminate.
    destruct (step s l) as [s1| |] eqn:E; simpl in H; try discriminate.
    destruct (IH _ _ H) as [n1 H1]. destruct (step_segs_grow _ _ _ E) as [n2 H2].
    exists (n1 ++ n2). rewrite H1, H2. apply app_assoc.
Qed.

(* a segment tag leaves a pending segment; only a URI line clears it *)
Definition is_segment_tag (t : tagv) : bool :=
  match t with
  | TInf _ | TByteRange _ | TDiscontinuity | TKey _ | TMap _ | TPdt _ | TDateRange _ => true
  | _ => false
  end.
Lemma step_segment_tag_partial : forall s t s',
  is_segment_tag t = true -> step s (LTag t) = Ok s' -> ps_partial s' = true.
Proof.
  intros s t s' Ht H. unfold step in H.
  destruct (in_kinds (kind_of t) media_rejects); [discriminate|].
  destruct t; try discriminate; cbn [step_tag set_seg] in H; inversion H; reflexivity.
Qed.
