(* GroupSpec.v — what a consistent master playlist is (RFC 8216 4.3.4.2 / 4.3.4.4), stated
   over the parsed value without reference to the validation algorithm. *)
From hls Require Import Base Float Lex Kinds Types Tags Line Keys Media Master.

(* the rendition groups a variant refers to, as (media type, group id) *)
Definition oref (ty : N) (o : option str) : list (N * str) :=
  match o with Some g => [(ty, g)] | None => [] end.
Definition refs (v : Variant) : list (N * str) :=
  match v with
  | VStreamInf _ _ au su cc sd =>
      oref mt_audio au ++ oref mt_video (sd_video sd) ++ oref mt_subtitles su
      ++ match cc with Some (CcGroup g) => [(mt_cc, g)] | _ => [] end
  | VIFrame _ sd => oref mt_video (sd_video sd)
  end.
Definition defines (media : list Media) (r : N * str) : Prop :=
  exists m, In m media /\ xm_type m = fst r /\ xm_group m = snd r.
Definition sd_key (d : SessionData) : str * option str := (xs_id d, xs_lang d).

Definition consistent (p : MasterPlaylist) : Prop :=
  (forall v r, In v (ma_variants p) -> In r (refs v) -> defines (ma_media p) r)
  /\ ~ (exists v1 v2, In v1 (ma_variants p) /\ In v2 (ma_variants p)
                      /\ has_cc_none v1 = true /\ has_cc_group v2 = true)
  /\ NoDup (map sd_key (ma_sdata p)).

(* the renditions a variant references *)
Definition references (v : Variant) (m : Media) : Prop := In (xm_type m, xm_group m) (refs v).
(* known finding D19: CLOSED-CAPTIONS=NONE treated as a group literally named NONE *)
Definition known_none_group (v : Variant) (m : Media) : Prop :=
  xm_type m = mt_cc /\ xm_group m = s_NONE /\
  match v with VStreamInf _ _ _ _ (Some CcNone) _ => True | _ => False end.
