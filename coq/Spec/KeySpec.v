(* KeySpec.v — RFC 8216 4.3.2.4 as a specification over the history of EXT-X-KEY events
   (None = METHOD=NONE), independent of how the implementation maintains its set. *)
From hls Require Import Base Float Lex Kinds Types Tags Line Keys Media.

(* an event that comes after a key `k` leaves `k` in effect iff it is a key of another format *)
Definition later_ok (k : Key) (y : xkey) : Prop :=
  match y with None => False | Some k' => same_fmt k' k = false end.

(* `x` is in effect after the history `h`: a key, iff it occurs in `h` and every later event
   is a key of a different KEYFORMAT (absent = identity); the explicit-none marker, iff
   METHOD=NONE is the last event *)
Definition InEffect (h : list xkey) (x : xkey) : Prop :=
  match x with
  | None => exists h1, h = h1 ++ [None]
  | Some k => exists h1 h2, h = h1 ++ Some k :: h2 /\ forall y, In y h2 -> later_ok k y
  end.

(* the key events among parsed lines, and the histories seen at each URI / MAP line *)
Definition key_event (l : line) : list xkey := match l with LTag (TKey k) => [k] | _ => [] end.
Definition key_hist (ls : list line) : list xkey := flat_map key_event ls.
